"""X01 driver (extension): the complete observer message stream of a playback call, high-level announcements included."""
from mingus.midi.sequencer import Sequencer
from mingus.containers.instrument import MidiInstrument
from .common import call, integer, Shape
from .program import mk_composition, built_ok
from .c18 import RecSeq, ret_bpm

L = 215040


class AllObs(object):
    """Records every message, not only the low-level ones (no dispatch through SequencerObserver)."""

    def __init__(self, bpm0, comp):
        self.log, self.bpm0, self.comp = [], bpm0, comp

    def _bar_index(self, bar):
        for tr in self.comp.tracks:
            for i, b in enumerate(tr.bars):
                if b is bar:
                    return i
        return -1

    def _track_index(self, track):
        for i, t in enumerate(self.comp.tracks):
            if t is track:
                return i
        return -1

    def notify(self, t, p):
        S = Sequencer
        def m(k, a, b, c):
            self.log.append({"k": k, "p": integer(a), "ch": integer(b), "v": integer(c)})
        if t == S.MSG_PLAY_INT: m("play", p["note"], p["channel"], p["velocity"])
        elif t == S.MSG_STOP_INT: m("stop", p["note"], p["channel"], 0)
        elif t == S.MSG_CC: m("cc", p["control"], p["channel"], p["value"])
        elif t == S.MSG_INSTR: m("instr", p["instr"], p["channel"], p["bank"])
        elif t == S.MSG_SLEEP: m("sleep", int(round(p["s"] * self.bpm0 * L / 240.0)), 0, 0)
        elif t == S.MSG_PLAY_NOTE: m("NOTE+", int(p["note"]) + 12, p["channel"], p["velocity"])
        elif t == S.MSG_STOP_NOTE: m("NOTE-", int(p["note"]) + 12, p["channel"], 0)
        elif t == S.MSG_PLAY_NC: m("NC+", 0 if p["notes"] is None else len(p["notes"]), p["channel"], p["velocity"])
        elif t == S.MSG_STOP_NC: m("NC-", 0 if p["notes"] is None else len(p["notes"]), p["channel"], 0)
        elif t == S.MSG_PLAY_BAR: m("BAR", self._bar_index(p["bar"]), p["channel"], p["bpm"])
        elif t == S.MSG_PLAY_BARS:
            ix = {self._bar_index(b) for b in p["bars"]}
            m("BARS", ix.pop() if len(ix) == 1 else -1, len(p["channels"]), p["bpm"])
        elif t == S.MSG_PLAY_TRACK: m("TRACK", self._track_index(p["track"]), p["channel"], p["bpm"])
        elif t == S.MSG_PLAY_TRACKS: m("TRACKS", len(p["tracks"]), len(p["channels"]), p["bpm"])
        elif t == S.MSG_PLAY_COMPOSITION:
            m("COMP", len(p["composition"].tracks), 0 if p["channels"] is None else len(p["channels"]), p["bpm"])
        else:
            raise Shape("unknown message type %r" % (t,))


def play_rec(op, prog, comp, fn, extra=None):
    s = RecSeq()
    s.bpm0 = prog["bpm"]
    o = AllObs(prog["bpm"], comp)
    s.attach(o)
    box = {}
    def f():
        box["ret"] = ret_bpm(fn(s))
    r = call(op, extra or {}, f, lambda _: 0)
    r["prog"] = prog
    r["events"] = s.log
    r["msgs"] = o.log
    r["ret"] = box.get("ret", -1)
    return r


def run_case(c):
    R = []
    p = c["prog"]
    try:
        comp = mk_composition(p)
        for t, tr in zip(p["tracks"], comp.tracks):
            if t["instr"]["kind"] == "midi":
                tr.instrument = MidiInstrument(MidiInstrument.names[t["instr"]["nr"]])
                tr.instrument.instrument_nr = t["instr"]["nr"]
        good = built_ok(p, comp)
    except Exception:
        good = False
    if not good:
        return [{"op": "build", "in": {}, "ok": False, "out": 0, "err": "construction", "prog": p, "events": [], "msgs": [], "ret": -1}]
    bpm = p["bpm"]
    n = len(comp.tracks)
    chans = list(range(1, n + 1))
    R.append(play_rec("play_Composition", p, comp, lambda s: s.play_Composition(comp, None, bpm)))
    R.append(play_rec("play_Tracks", p, comp, lambda s: s.play_Tracks(comp.tracks, chans, bpm)))
    for bi in range(len(p["tracks"][0]["bars"])):
        sub = dict(p, tracks=[dict(t, bars=[t["bars"][bi]]) for t in p["tracks"]])
        R.append(play_rec("play_Bars", sub, comp, lambda s: s.play_Bars([tr.bars[bi] for tr in comp.tracks], chans, bpm), {"bar": bi}))
    for ti, t in enumerate(p["tracks"]):
        sub = dict(p, tracks=[t])
        R.append(play_rec("play_Track", sub, comp, lambda s: s.play_Track(comp.tracks[ti], 9, bpm), {"track": ti}))
        for bi in range(len(t["bars"])):
            sub2 = dict(p, tracks=[dict(t, bars=[t["bars"][bi]])])
            R.append(play_rec("play_Bar", sub2, comp, lambda s: s.play_Bar(comp.tracks[ti].bars[bi], 9, bpm), {"track": ti, "bar": bi}))
    return R
