"""C19 driver: LilyPond and MusicXML exports. LilyPond text is only LEXED here (tokens); XML is parsed into records."""
import re
import xml.etree.ElementTree as ET
from mingus.extra import lilypond, musicxml
from mingus.containers import NoteContainer
from .common import call, Shape
from .program import mk_composition, built_ok, mk_container
from .values import build

_TOK = re.compile(r"""\s*(?:
    (?P<header>\\header\s*\{\s*title\s*=\s*"(?P<title>(?:[^"\\]|\\.)*)"\s*composer\s*=\s*"(?P<composer>(?:[^"\\]|\\.)*)"\s*opus\s*=\s*"(?P<opus>(?:[^"\\]|\\.)*)"\s*\})
  | (?P<time>\\time\s+(?P<ta>\d+)/(?P<tb>\d+))
  | (?P<key>\\key\s+(?P<kl>[a-g])(?P<kacc>(?:is|es)*)\s+\\(?P<kmode>major|minor))
  | (?P<times>\\times\s+(?P<xa>\d+)/(?P<xb>\d+))
  | (?P<lbrace>\{) | (?P<rbrace>\}) | (?P<lchord><)
  | (?P<rchord>>(?P<rdur>\\longa|\\breve|\d+)?(?P<rdots>\.*))
  | (?P<rest>r(?P<sdur>\\longa|\\breve|\d+)?(?P<sdots>\.*))
  | (?P<note>(?P<nl>[a-g])(?P<nacc>(?:is|es)*)(?P<noct>[',]*)(?P<ndur>\\longa|\\breve|\d+)?(?P<ndots>\.*))
)""", re.X)
_BASE = {"\\longa": 0, "\\breve": 1, "1": 2, "2": 3, "4": 4, "8": 5, "16": 6, "32": 7, "64": 8, "128": 9}


def dur(d, dots):
    if d is None:
        return {"has": False, "base": -1, "dots": len(dots or "")}
    return {"has": True, "base": _BASE.get(d, -1), "dots": len(dots or "")}


def acc(s):
    return s.count("is") - s.count("es") if s else 0


# Texts cross the JSON / TLA+ boundary in ASCII: a character outside printable ASCII is written {code point}.  The two
# functions are inverse of each other on such texts (transliteration only).
def ascii_in(t):
    return re.sub(r"\{(\d+)\}", lambda m: chr(int(m.group(1))), t)


def ascii_out(t):
    return "".join(c if 32 <= ord(c) < 127 and c not in "{}" else "{%d}" % ord(c) for c in t)


def lex(text):
    if not isinstance(text, str):
        raise Shape("text expected, got %s" % type(text).__name__)
    pos, out = 0, []
    text = text.rstrip()
    while pos < len(text):
        m = _TOK.match(text, pos)
        if not m or m.end() == pos:
            raise Shape("cannot lex LilyPond text at %d: %r" % (pos, text[pos:pos + 20]))
        pos = m.end()
        g = m.groupdict()
        if g["header"]:
            un = lambda t: ascii_out(re.sub(r"\\(.)", r"\1", t))      # LilyPond string escapes
            out.append({"k": "header", "title": un(g["title"]), "composer": un(g["composer"]), "opus": un(g["opus"])})
        elif g["time"]:
            out.append({"k": "time", "a": int(g["ta"]), "b": int(g["tb"])})
        elif g["key"]:
            out.append({"k": "key", "l": g["kl"], "acc": acc(g["kacc"]), "mode": g["kmode"]})
        elif g["times"]:
            out.append({"k": "times", "a": int(g["xa"]), "b": int(g["xb"])})
        elif g["lbrace"]:
            out.append({"k": "lbrace"})
        elif g["rbrace"]:
            out.append({"k": "rbrace"})
        elif g["lchord"]:
            out.append({"k": "lchord"})
        elif g["rchord"]:
            out.append({"k": "rchord", "dur": dur(g["rdur"], g["rdots"])})
        elif g["rest"]:
            out.append({"k": "rest", "dur": dur(g["sdur"], g["sdots"])})
        elif g["note"]:
            out.append({"k": "note", "l": g["nl"], "acc": acc(g["nacc"]), "oct": 3 + g["noct"].count("'") - g["noct"].count(","),
                        "dur": dur(g["ndur"], g["ndots"])})
    return out


def itxt(node, path, default=None):
    x = node.find(path)
    if x is None or x.text is None:
        if default is None:
            raise Shape("missing <%s>" % path)
        return default
    return x.text


def num(t):
    """MusicXML numbers are decimals: '4' and '4.0' are the same number; it must be integral here."""
    f = float(t)
    if f != int(f) or abs(f) >= 2 ** 31:
        raise Shape("integral number expected, got %r" % (t,))
    return int(f)


def parse_xml(text):
    if not isinstance(text, str):
        raise Shape("text expected")
    root = ET.fromstring(text)      # raises on XML that is not well formed
    out = {"title": ascii_out(itxt(root, "movement-title", "")), "creator": ascii_out(itxt(root, "identification/creator", "")), "partlist": [], "parts": []}
    for sp in root.findall("part-list/score-part"):
        out["partlist"].append({"id": sp.get("id", ""), "name": itxt(sp, "part-name", ""), "instr": itxt(sp, "score-instrument/instrument-name", "")})
    for part in root.findall("part"):
        ms = []
        for m in part.findall("measure"):
            notes = []
            for n in m.findall("note"):
                rest = n.find("rest") is not None
                notes.append({"rest": rest, "step": "" if rest else itxt(n, "pitch/step"), "alter": 0 if rest else int(itxt(n, "pitch/alter", "0")),
                              "octave": 0 if rest else int(itxt(n, "pitch/octave")), "chord": n.find("chord") is not None,
                              "dots": len(n.findall("dot")), "duration": num(itxt(n, "duration"))})
            ms.append({"number": int(m.get("number", "-1")), "divisions": num(itxt(m, "attributes/divisions")),
                       "fifths": int(itxt(m, "attributes/key/fifths", "99")), "mode": itxt(m, "attributes/key/mode", ""),
                       "beats": int(itxt(m, "attributes/time/beats")), "beattype": int(itxt(m, "attributes/time/beat-type")), "notes": notes})
        out["parts"].append({"id": part.get("id", ""), "measures": ms})
    # part ids are arbitrary texts (often memory addresses): renamed by order of first appearance, which keeps
    # exactly what matters about them - which are equal and which differ
    ren = {}
    for x in out["partlist"] + out["parts"]:
        x["id"] = ren.setdefault(x["id"], "id%d" % (len(ren) + 1)) if x["id"] != "" else ""
    return out


def run_case(c):
    R = []
    p = c["prog"]
    p.setdefault("title", "Untitled"); p.setdefault("author", ""); p.setdefault("subtitle", "")
    try:
        # an author is registered together with an e-mail address (the second argument of set_author): the author's name is what is printed
        comp = mk_composition(dict(p, title=ascii_in(p["title"]), author=ascii_in(p["author"]), subtitle=ascii_in(p["subtitle"]),
                                   email="someone@example.org" if p["author"] else ""))
        good = built_ok(p, comp)
    except Exception:
        good = False
    if not good:
        return [{"op": "build", "in": {}, "ok": False, "out": 0, "err": "construction"}]

    def ly(op, prog, fn, extra=None):
        r = call(op, extra or {}, lambda: lex(fn()))
        r["prog"] = prog
        r["tokens"] = r["out"] if r["ok"] else []
        r["out"] = 0
        R.append(r)
    ly("ly_composition", p, lambda: lilypond.from_Composition(comp))
    t0 = p["tracks"][0]
    ly("ly_track", dict(p, tracks=[t0]), lambda: lilypond.from_Track(comp.tracks[0]))
    for bi, b in enumerate(t0["bars"][:2]):
        ly("ly_bar", dict(p, tracks=[dict(t0, bars=[b])]), lambda: lilypond.from_Bar(comp.tracks[0].bars[bi]))
        # the same bar object exported while every note was a semitone higher, then put back (augment / diminish are inverse on names) and exported again
        def edited_between():
            bar = mk_composition(p).tracks[0].bars[bi]
            bar.augment()
            lilypond.from_Bar(bar)
            bar.diminish()
            return lilypond.from_Bar(bar)
        ly("ly_bar", dict(p, tracks=[dict(t0, bars=[b])]), edited_between, {"exported_before": "while augmented"})
        for e in b["entries"][:3]:
            one = dict(p, tracks=[dict(t0, bars=[dict(b, entries=[e])])])
            nc = None if e["rest"] else mk_container(e)
            ly("ly_container", one, lambda: "{ " + lilypond.from_NoteContainer(nc, build(e["v"]), standalone=False) + " }", {"with_value": True})
            if not e["rest"]:
                ly("ly_container", one, lambda: lilypond.from_NoteContainer(nc), {"with_value": False})
                if len(e["notes"]) == 1:
                    ly("ly_container", one, lambda: lilypond.from_Note(nc[0]), {"with_value": False})
    r = call("xml_composition", {}, lambda: parse_xml(musicxml.from_Composition(comp)))
    r["prog"] = p
    r["xml"] = r["out"] if r["ok"] else {}
    r["out"] = 0
    r["names"] = [tr.name for tr in comp.tracks]
    r["instrs"] = [("" if tr.instrument is None else str(tr.instrument.name)) for tr in comp.tracks]
    R.append(r)
    # the same program with ONE Bar object wherever a bar's key, meter and content recur in a track (a repeated phrase
    # added to the track twice): what is shown for a bar depends on the bars around it, not on the object
    import json as _json
    sig = lambda b: _json.dumps(b, sort_keys=True)
    if any(len({sig(b) for b in t["bars"]}) < len(t["bars"]) for t in p["tracks"]):
        comp4 = mk_composition(p)
        if built_ok(p, comp4):
            for t4, tr4 in zip(p["tracks"], comp4.tracks):
                first = {}
                for j, b4 in enumerate(t4["bars"]):
                    k4 = sig(b4)
                    if k4 in first:
                        tr4.bars[j] = tr4.bars[first[k4]]
                    else:
                        first[k4] = j
            r = call("ly_composition", {"bars": "one object where content recurs"}, lambda: lex(lilypond.from_Composition(comp4)))
            r["prog"] = p
            r["tokens"] = r["out"] if r["ok"] else []
            r["out"] = 0
            R.append(r)
            r = call("ly_track", {"bars": "one object where content recurs"}, lambda: lex(lilypond.from_Track(comp4.tracks[0])))
            r["prog"] = dict(p, tracks=[p["tracks"][0]])
            r["tokens"] = r["out"] if r["ok"] else []
            r["out"] = 0
            R.append(r)
            r = call("xml_composition", {"bars": "one object where content recurs"}, lambda: parse_xml(musicxml.from_Composition(comp4)))
            r["prog"] = p
            r["xml"] = r["out"] if r["ok"] else {}
            r["out"] = 0
            r["names"] = [tr.name for tr in comp4.tracks]
            r["instrs"] = [("" if tr.instrument is None else str(tr.instrument.name)) for tr in comp4.tracks]
            R.append(r)
    # the same program with the first and last note of every chord exchanged by item assignment (a container keeps the order it
    # is given that way): the export follows the container as stored
    if any(len(e["notes"]) >= 2 for t in p["tracks"] for b in t["bars"] for e in b["entries"]):
        import copy as _copy
        from mingus.containers import Note as _Note
        p3 = _copy.deepcopy(p)
        comp3 = mk_composition(p)
        if built_ok(p, comp3):
            for t3, tr3 in zip(p3["tracks"], comp3.tracks):
                for b3, bar3 in zip(t3["bars"], tr3.bars):
                    for e3, ent3 in zip(b3["entries"], bar3.bar):
                        if len(e3["notes"]) >= 2:
                            nc3 = ent3[2]
                            lo, hi = _Note(nc3[0]), _Note(nc3[len(nc3) - 1])
                            nc3[0] = hi
                            nc3[len(nc3) - 1] = lo
                            e3["notes"][0], e3["notes"][-1] = e3["notes"][-1], e3["notes"][0]
            r = call("xml_composition", {"chords": "first and last note exchanged"}, lambda: parse_xml(musicxml.from_Composition(comp3)))
            r["prog"] = p3
            r["xml"] = r["out"] if r["ok"] else {}
            r["out"] = 0
            r["names"] = [tr.name for tr in comp3.tracks]
            r["instrs"] = [("" if tr.instrument is None else str(tr.instrument.name)) for tr in comp3.tracks]
            R.append(r)
    # the same program with its rests held as empty NoteContainers instead of None
    if any(e["rest"] for t in p["tracks"] for b in t["bars"] for e in b["entries"]):
        from . import program as _pg
        _pg.REST_AS_EMPTY_CONTAINER[0] = True
        try:
            comp2 = mk_composition(p)
        finally:
            _pg.REST_AS_EMPTY_CONTAINER[0] = False
        if built_ok(p, comp2):
            r = call("xml_composition", {"rests": "empty containers"}, lambda: parse_xml(musicxml.from_Composition(comp2)))
            r["prog"] = p
            r["xml"] = r["out"] if r["ok"] else {}
            r["out"] = 0
            r["names"] = [tr.name for tr in comp2.tracks]
            r["instrs"] = [("" if tr.instrument is None else str(tr.instrument.name)) for tr in comp2.tracks]
            R.append(r)
            r = call("ly_composition", {"rests": "empty containers"}, lambda: lex(lilypond.from_Composition(comp2)))
            r["prog"] = p
            r["tokens"] = r["out"] if r["ok"] else []
            r["out"] = 0
            R.append(r)
    return R
