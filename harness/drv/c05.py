"""C05 driver: scales."""
from mingus.core import scales
from .common import again, AGAIN, call, nm, txt, integer, boolean, names, Shape


def mk(c, t, n):
    return getattr(scales, c)(t, n)


def recname(s):
    if not isinstance(s, str) or " " not in s:
        raise Shape("scale name expected")
    t, k = s.split(" ", 1)
    return {"t": list(t), "k": k}


def run_case(c):
    R = []
    kd = c["kind"]
    if kd == "scale":
        cls, t, n = c["c"], txt(c["t"]), c["n"]
        i = {"c": cls, "t": list(t), "n": n}
        R.append(call("scale", i, lambda: (lambda s: {"asc": s.ascending(), "desc": s.descending(), "len": len(s)})(mk(cls, t, n)),
                      lambda o: {"asc": names(o["asc"]), "desc": names(o["desc"]), "len": integer(o["len"])}))
        for d, meth in (("a", "ascending"), ("d", "descending")):
            def f():
                s = mk(cls, t, n)
                ref = getattr(s, meth)()
                return {"list": [s.degree(k, d) for k in range(1, len(ref))], "ref": ref}
            R.append(call("degrees", dict(i, dir=d), f, lambda o: {"list": names(o["list"]), "ref": names(o["ref"])}))
        # one scale object asked in both directions, in both orders (the object may not remember its first answer for the other)
        for first, second in (("a", "d"), ("d", "a")):
            def g():
                s = mk(cls, t, n)
                m1 = {"a": "ascending", "d": "descending"}
                r1 = getattr(s, m1[first])()
                [s.degree(k, first) for k in range(1, len(r1))]
                ref = getattr(s, m1[second])()
                return {"list": [s.degree(k, second) for k in range(1, len(ref))], "ref": ref}
            R.append(call("degrees", dict(i, dir=second, after=first), g, lambda o: {"list": names(o["list"]), "ref": names(o["ref"])}))
        # one scale object that has answered, then is given another octave count (octaves is a plain public attribute): it answers for what it now is
        if hasattr(mk(cls, t, n), "octaves"):
            for d, meth in (("a", "ascending"), ("d", "descending")):
                def h():
                    s = mk(cls, t, n)
                    r0 = getattr(s, meth)()
                    [s.degree(k, d) for k in range(1, len(r0))]
                    s.octaves = n + 1
                    ref = getattr(s, meth)()
                    return {"list": [s.degree(k, d) for k in range(1, len(ref))], "ref": ref}
                R.append(call("degrees", dict(i, dir=d, after="its octave count was raised by one"), h, lambda o: {"list": names(o["list"]), "ref": names(o["ref"])}))
    elif kd == "eq":
        a, b = c["a"], c["b"]
        def f():
            x, y = mk(a["c"], txt(a["t"]), a["n"]), mk(b["c"], txt(b["t"]), b["n"])
            return {"eq": x == y, "ne": x != y, "asc_a": x.ascending(), "desc_a": x.descending(),
                    "asc_b": y.ascending(), "desc_b": y.descending()}
        R.append(call("eq", {"a": a, "b": b}, f, lambda o: {"eq": boolean(o["eq"]), "ne": boolean(o["ne"]),
                 "asc_a": names(o["asc_a"]), "desc_a": names(o["desc_a"]), "asc_b": names(o["asc_b"]), "desc_b": names(o["desc_b"])}))
    elif kd == "rec":
        ns = [txt(x) for x in c["notes"]]
        R.append(call("determine", {"notes": [list(x) for x in ns]}, lambda: scales.determine(list(ns)), lambda o: [recname(x) for x in o]))
        R.append(call("determine", {"notes": [list(x) for x in ns], "asked": AGAIN}, again(lambda: scales.determine(list(ns))), lambda o: [recname(x) for x in o]))
        # the same notes given as another kind of collection (the kind rotates over the cases): the answer is about the notes
        form = ("tuple", "set", "iterator", "dictionary keys")[(len(ns) + c.get("cid", 0)) % 4]
        give = {"tuple": tuple, "set": set, "iterator": iter, "dictionary keys": lambda x: dict.fromkeys(x).keys()}[form]
        R.append(call("determine", {"notes": [list(x) for x in ns], "given_as": form}, lambda: scales.determine(give(list(ns))), lambda o: [recname(x) for x in o]))
    return R
