"""X09 driver (extension): intervals.get_interval."""
from mingus.core import intervals
from .common import call, nm, txt, integer


def run_case(c):
    R = []
    k = c["kind"]
    note, n = txt(c["note"]), integer(c["n"])
    if k == "get":
        key = txt(c["key"])
        R.append(call("get_interval", {"note": list(note), "n": n, "key": list(key), "default": False},
                      lambda: intervals.get_interval(note, n, key), nm))
    elif k == "default":
        R.append(call("get_interval", {"note": list(note), "n": n, "key": [], "default": True},
                      lambda: intervals.get_interval(note, n), nm))
    elif k == "badkey":
        key = txt(c["key"])
        R.append(call("badkey", {"note": list(note), "n": n, "key": list(key)}, lambda: intervals.get_interval(note, n, key), nm))
    return R
