"""C13 driver: Bar behaviours."""
from mingus.containers import Bar, Note, NoteContainer
from .common import call, nm, txt, integer, boolean, Shape
from .values import build, beat_ticks, value_ticks
from .c12 import item


def nc_proj(c):
    if c is None:
        return {"rest": True, "notes": []}
    if not isinstance(c, NoteContainer):
        raise Shape("entry content must be a NoteContainer or None, got %s" % type(c).__name__)
    return {"rest": False, "notes": [{"n": nm(x.name), "o": integer(x.octave)} for x in c.notes]}


def bar_proj(b):
    ln, lr = beat_ticks(b.length)
    cu, cr = beat_ticks(b.current_beat)
    sp, sr = beat_ticks(b.space_left())
    ents = []
    for e in b.bar:
        at, ar = beat_ticks(e[0])
        vt, vr = value_ticks(e[1])
        ents.append({"at": at, "atRes": ar, "vt": vt, "vtRes": vr, "c": nc_proj(e[2])})
    return {"meter": [integer(b.meter[0]), integer(b.meter[1])], "len": ln, "lenRes": lr, "cur": cu, "curRes": cr,
            "space": sp, "spaceRes": sr, "full": boolean(b.is_full()), "n": integer(len(b)), "entries": ents,
            "key": nm(b.key.key)}


def content(arg, form):
    """Realise an argument spec as one of the accepted Python forms."""
    if arg["rest"]:
        return None
    items = [item(i) for i in arg["items"]]
    if form == "nc":
        return NoteContainer(items)
    if form == "single" and len(items) == 1:
        return items[0]
    return items


def apply_bar(b, a, k=0, shared=None):
    op = a["op"]
    forms = ["list", "nc", "single"]
    if op == "place_notes" and shared is not None and not a["arg"]["rest"]:
        import json
        key = json.dumps(a["arg"], sort_keys=True)
        if key not in shared:
            shared[key] = content(a["arg"], "nc")
        return b.place_notes(shared[key], build(a["v"]))
    if op == "place_notes":
        return b.place_notes(content(a["arg"], forms[k % 3]), build(a["v"]))
    if op == "place_rest":
        return b.place_rest(build(a["v"]))
    if op == "plus":
        return b + content(a["arg"], forms[k % 2])
    if op == "remove_last":
        b.remove_last_entry()
        return True
    if op == "set_item":
        # a list holding a [name, octave] pair is handed over as a NoteContainer (Bar.__setitem__ feeds list items one by one)
        haspair = any(i["t"] == "pair" for i in a["arg"]["items"])
        idx = a["i"] - 1 if k % 2 else a["i"] - 1 - len(b)      # the same entry counted from the end (a negative index) every other time
        b[idx] = content(a["arg"], "nc" if haspair else forms[k % 3]) if not a["arg"]["rest"] else None
        return True
    if op == "place_at":
        b.place_notes_at(content(a["arg"], "list"), b.bar[a["i"] - 1][0])
        return True
    if op == "place_at_obj":
        # the very container object that was placed elsewhere in the bar is added to the entry at index i
        import json
        key = json.dumps(a["arg"], sort_keys=True)
        if shared is None or key not in shared:
            raise Shape("place_at_obj needs a container placed before")
        b.place_notes_at(shared[key], b.bar[a["i"] - 1][0])
        return True
    if op == "place_at_beat":
        b.place_notes_at(content(a["arg"], "list"), a["beat"])       # an int: the beat, as the method's name says
        return True
    if op == "set_meter":
        b.set_meter((a["count"], a["unit"]))
        return True
    raise Shape("unknown action " + op)


def run_case(c):
    R = []
    meter = tuple(c["meter"])
    b = None
    def mk():
        nonlocal b
        b = Bar("C", meter)
    rec = call("new", {"meter": list(meter)}, mk, lambda _: 0)
    if b is None:
        return [dict(rec, obs={}, ret=False)]
    rec["obs"] = bar_proj(b)
    rec["ret"] = True
    R.append(rec)
    acts = c["acts"]
    if c["kind"] == "fill":
        acts = [{"op": "place_notes" if i % 2 == 0 else "place_rest", "v": c["v"],
                 "arg": {"rest": False, "items": [{"t": "bare", "n": ["C"], "o": 0}]}} for i in range(c["n"])]
    if c["kind"] == "placeat":
        note = {"rest": False, "items": [{"t": "bare", "n": ["C"], "o": 0}]}
        acts = [{"op": "place_notes", "v": c["v"], "arg": note} for _ in range(c["n"])]
        acts += [{"op": "place_at", "i": i, "arg": {"rest": False, "items": [{"t": "pair", "n": ["E"], "o": 5}]}} for i in range(c["n"], 0, -1)]
    shared = {} if c.get("share") else None
    for k, a in enumerate(acts):
        inp = {kk: vv for kk, vv in a.items() if kk != "op"}
        box = {}
        def f():
            box["r"] = apply_bar(b, a, k, shared)
        rec = call(a["op"], inp, f, lambda _: 0)
        r = box.get("r", False)
        rec["ret"] = r if isinstance(r, bool) else False
        if rec["ok"] and not isinstance(r, bool):
            rec.update(ok=False, err="shape:bool return expected")
        try:
            rec["obs"] = bar_proj(b)
        except Shape as e:       # a bar that cannot be projected (wrong type inside) is reported, not coerced
            rec.update(ok=False, err="shape:" + str(e)[:80])
            rec["obs"] = R[-1]["obs"]
        R.append(rec)
    return R
