"""Builds real mingus objects from a Program (the shared vocabulary of the exporter checks) through the public API."""
from mingus.containers import Note, NoteContainer, Bar, Track, Composition
from mingus.containers.instrument import Instrument, Piano, Guitar, MidiInstrument
from .common import txt, Shape
from .values import build


def mk_note(x):
    return Note(txt(x["n"]), x["o"], velocity=x["vel"], channel=x["ch"])


def mk_container(entry):
    nc = NoteContainer([mk_note(x) for x in entry["notes"]])
    if entry.get("bpm", 0):
        nc.bpm = entry["bpm"]
    return nc


REST_AS_EMPTY_CONTAINER = [False]     # a rest may be held as None or as an empty NoteContainer; both mean silence


def mk_bar(b):
    bar = Bar(txt(b["key"]), tuple(b["meter"]))
    for e in b["entries"]:
        v = build(e["v"])
        if e["rest"] and REST_AS_EMPTY_CONTAINER[0]:
            ok = bar.place_notes(NoteContainer(), v)
        else:
            ok = bar.place_rest(v) if e["rest"] else bar.place_notes(mk_container(e), v)
        if not ok:
            raise Shape("construction refused by the library (entry does not fit)")
    return bar


def mk_instr(i):
    if i["kind"] == "none":
        return None
    if i["kind"] == "midi":
        m = MidiInstrument()
        m.instrument_nr = i["nr"]
        return m
    return {"piano": Piano, "guitar": Guitar, "generic": Instrument}[i["kind"]]()


def mk_track(t):
    tr = Track(mk_instr(t["instr"]))
    tr.name = bytes(t["name"]).decode("ascii")
    for b in t["bars"]:
        tr.add_bar(mk_bar(b))
    return tr


def mk_composition(p):
    c = Composition()
    for t in p["tracks"]:
        c.add_track(mk_track(t))
    if "title" in p:
        c.set_title(p["title"], p.get("subtitle", ""))
        c.set_author(p.get("author", ""), p.get("email", ""))
    return c


def built_ok(p, comp):
    """The objects really hold what the program says (pitch order inside containers, counts)."""
    if len(comp.tracks) != len(p["tracks"]):
        return False
    for t, tr in zip(p["tracks"], comp.tracks):
        if len(tr.bars) != len(t["bars"]):
            return False
        for b, bar in zip(t["bars"], tr.bars):
            if len(bar) != len(b["entries"]):
                return False
            for e, ent in zip(b["entries"], bar):
                if e["rest"]:
                    if ent[2] is not None and len(ent[2]) != 0:
                        return False
                elif [(n.name, n.octave, n.channel, n.velocity) for n in ent[2]] != [(txt(x["n"]), x["o"], x["ch"], x["vel"]) for x in e["notes"]]:
                    return False
    return True
