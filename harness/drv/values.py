"""Note values: descriptor -> float value built with the library's own constructors; float -> ticks."""
from mingus.core import value
from .common import Shape

L = 215040


def build(v):
    base = value.base_values[v["b"]]
    r = tuple(v["r"])
    if v["d"] > 0:
        return value.dots(base, v["d"])
    if r == (3, 2):
        return value.triplet(base)
    if r == (5, 4):
        return value.quintuplet(base)
    if r == (7, 4):
        return value.septuplet(base)
    return base


def clamp(x):
    return max(-2 ** 30, min(2 ** 30, int(x)))


def beat_ticks(x):
    """a float length in whole notes -> (rounded ticks, residue in 1e-9 tick)"""
    if isinstance(x, bool) or not isinstance(x, (int, float)):
        raise Shape("number expected")
    t = x * L
    ti = int(round(t))
    return clamp(ti), clamp(round((t - ti) * 1e9))


def value_ticks(x):
    """a note value (reciprocal length) -> (rounded ticks, residue in 1e-9 tick)"""
    if isinstance(x, bool) or not isinstance(x, (int, float)) or x == 0:
        raise Shape("non-zero number expected")
    t = L / x
    ti = int(round(t))
    return clamp(ti), clamp(round((t - ti) * 1e9))
