"""X07 driver (extension): one Bar under placements, removals, emptying and changes of a value; its answers after every step."""
from mingus.containers import Bar, NoteContainer
from mingus.core import chords as core_chords
from .common import call, observe, nm, integer, Shape
from .values import build, beat_ticks, value_ticks
from .c13 import bar_proj, content


def answers(b):
    q = {"range": {"ok": False, "lo": -1, "hi": -1}, "names": {"ok": False, "v": []},
         "chords": {"ok": False, "beats": [], "same": False}, "left": {"ok": False, "t": 0}}
    try:
        lo, hi = b.get_range()
        q["range"] = {"ok": True, "lo": integer(int(lo)), "hi": integer(int(hi))}
    except Shape:
        raise
    except Exception:
        pass
    try:
        q["names"] = {"ok": True, "v": [nm(x) for x in b.get_note_names()]}
    except Shape:
        raise
    except Exception:
        pass
    try:
        got = b.determine_chords(True)
        direct = [core_chords.determine([n.name for n in e[2]], True) for e in b.bar]     # the entry's names asked directly
        q["chords"] = {"ok": True, "beats": [beat_ticks(x[0])[0] for x in got], "same": [x[1] for x in got] == direct}
    except Shape:
        raise
    except Exception:
        pass
    try:
        q["left"] = {"ok": True, "t": value_ticks(b.value_left())[0]}
    except Exception:
        pass
    return q


def run_case(c):
    R = []
    b = Bar("C", (4, 4))
    prev = bar_proj(b)
    for k, a in enumerate(c["acts"]):
        if a["op"] == "change" and not 1 <= a["i"] <= len(b.bar):
            continue      # the history was generated for a bar in which an earlier change took effect: there is no such entry here
        def f():
            op = a["op"]
            if op == "place":
                b.place_notes(content(a["arg"], ("list", "nc")[k % 2]), build(a["v"]))
            elif op == "change":
                b.change_note_duration(b.bar[a["i"] - 1][0], build(a["v"]))      # the entry is named by the beat it starts on
            elif op == "remove_last":
                b.remove_last_entry()
            elif op == "empty":
                b.empty()
            else:
                raise Shape("unknown step " + op)
            return 0
        r = call(a["op"], {"v": a["v"], "arg": a["arg"], "i": a["i"]}, f)
        observe(r, lambda: bar_proj(b), prev)
        prev = r["obs"]
        r["cur"] = r["obs"]["cur"]
        r["q"] = answers(b)
        r["first"] = not R
        R.append(r)
    return R
