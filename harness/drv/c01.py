"""C01 driver: note names and pitch classes."""
from mingus.core import notes
from .common import call, nm, txt, integer, boolean


def run_case(c):
    k = c["kind"]
    R = []
    if k in ("name", "str"):
        s = txt(c["n"] if k == "name" else c["s"])
        i = {"n": list(s)}
        R.append(call("note_to_int", i, lambda: notes.note_to_int(s), integer))
        R.append(call("is_valid_note", i, lambda: notes.is_valid_note(s), boolean))
        R.append(call("reduce_accidentals", i, lambda: notes.reduce_accidentals(s), nm))
        if k == "name":
            R.append(call("remove_redundant_accidentals", i, lambda: notes.remove_redundant_accidentals(s), nm))
            R.append(call("augment", i, lambda: notes.augment(s), nm))
            R.append(call("diminish", i, lambda: notes.diminish(s), nm))
            for t in "#b":
                R.append(call("step", {"n": list(s), "t": t},
                              lambda: [notes.note_to_int(s), notes.note_to_int(s + t)], lambda x: [integer(x[0]), integer(x[1])]))
    elif k == "pair":
        a, b = txt(c["a"]), txt(c["b"])
        R.append(call("is_enharmonic", {"a": list(a), "b": list(b)}, lambda: notes.is_enharmonic(a, b), boolean))
    elif k == "int":
        st = txt(c["style"])
        i = {"i": c["i"], "style": list(st)}
        R.append(call("int_to_note", i, lambda: notes.int_to_note(c["i"], st), nm))
        # the same question with the style left to its default (sharps) and with the style given by keyword
        if st == "#":
            R.append(call("int_to_note", dict(i, given="default"), lambda: notes.int_to_note(c["i"]), nm))
        R.append(call("int_to_note", dict(i, given="keyword"), lambda: notes.int_to_note(c["i"], accidentals=st), nm))
        if 0 <= c["i"] <= 11 and st in ("#", "b"):
            R.append(call("roundtrip", i, lambda: notes.note_to_int(notes.int_to_note(c["i"], st)), integer))
    return R
