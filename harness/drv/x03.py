"""X03 driver (extension): instruments, ranges and the questions asked about them after every step."""
from mingus.containers import Note, NoteContainer
from mingus.containers.instrument import Instrument, Piano, Guitar, MidiInstrument
from .common import call, integer, boolean, Shape

MK = {"generic": Instrument, "piano": Piano, "guitar": Guitar, "midi": MidiInstrument}
NAMES = ["C", "C#", "D", "Eb", "E", "F", "F#", "G", "Ab", "A", "Bb", "B"]


def note_of(p):
    return Note(NAMES[p % 12], p // 12)


def text_of(p):
    return "%s-%d" % (NAMES[p % 12], p // 12)


PROBES = [0, 4, 5, 11, 12, 39, 40, 41, 59, 60, 87, 88, 89, 95, 96, 97, 106, 107, 108, 114, 115, 116]


def observe(insts):
    out = []
    for ins in insts:
        lo, hi = ins.range
        o = {"lo": integer(int(lo)), "hi": integer(int(hi)), "probes": [], "plays": []}
        for k, p in enumerate(PROBES):
            r = ins.note_in_range(note_of(p)) if k % 2 == 0 else ins.note_in_range(text_of(p))
            o["probes"].append({"p": p, "r": boolean(r)})
        mid = max(0, min(116, (int(lo) + int(hi)) // 2))
        sets = [[mid], [mid] * 6, [mid] * 7, [mid, PROBES[3]], [int(lo), int(hi)] if 0 <= int(lo) <= 116 and 0 <= int(hi) <= 116 else [mid],
                [mid + i for i in range(6) if mid + i <= 116], [mid - i for i in range(7) if mid - i >= 0], []]
        for k, ps in enumerate(sets):
            if k % 3 == 0:
                arg = [note_of(p) for p in ps]
            elif k % 3 == 1:
                arg = [text_of(p) for p in ps]
            else:
                arg = NoteContainer([note_of(p) for p in sorted(set(ps))])
                ps = sorted(set(ps))
            r1 = ins.can_play_notes(arg)
            r2 = ins.notes_in_range(arg)
            o["plays"].append({"ps": ps, "r": boolean(r1), "alias": boolean(r2)})
        if len(sets[0]) == 1:
            o["plays"].append({"ps": sets[0], "r": boolean(ins.can_play_notes(note_of(sets[0][0]))), "alias": boolean(ins.notes_in_range(note_of(sets[0][0])))})
        out.append(o)
    return out


def run_case(c):
    R = []
    insts = []
    for k, a in enumerate(c["acts"]):
        def f():
            if a["op"] == "new":
                insts.append(MK[a["kind"]]())
            else:
                ins = insts[a["i"] - 1]
                if a["form"] == "names":
                    ins.set_range((text_of(a["lo"]), text_of(a["hi"])))
                else:
                    ins.set_range((note_of(a["lo"]), note_of(a["hi"])))
            return 0
        r = call(a["op"], a, f)
        def g():
            return observe(insts)
        q = call("observe", {}, g)
        r["obs"] = q["out"] if q["ok"] else []
        r["obs_ok"] = q["ok"]
        r["obs_err"] = q["err"]
        r["first"] = k == 0
        R.append(r)
    return R
