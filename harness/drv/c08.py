"""C08 driver: diatonic harmony."""
from mingus.core import chords, progressions
from .common import again, AGAIN, call, nm, txt, names, Shape, listof, integer

FUNCS = ["tonic", "supertonic", "mediant", "subdominant", "dominant", "submediant", "subtonic"]
NUM = ["I", "II", "III", "IV", "V", "VI", "VII"]
MAJNUM = ["I", "ii", "iii", "IV", "V", "vi", "vii"]


def strs(xs):
    if not isinstance(xs, list) or not all(isinstance(x, str) for x in xs):
        raise Shape("list of text expected")
    return xs


def run_case(c):
    R = []
    kd = c["kind"]
    if kd == "diatonic":
        k, d = txt(c["k"]), c["d"]
        for sv in (False, True):
            sfx = "7" if sv else ""
            base = {"k": list(k), "d": d, "seventh": sv}
            nmf = FUNCS[d - 1] + sfx
            R.append(call("function_name", dict(base, name=nmf, alias=False), lambda: getattr(chords, nmf)(k), names))
            aliases = [NUM[d - 1] + sfx] + ([NUM[d - 1].lower() + sfx] if d in (2, 3, 6, 7) else [])
            for a in aliases:
                R.append(call("function_name", dict(base, name=a, alias=True), lambda: getattr(chords, a)(k), names))
            for a in (NUM[d - 1] + sfx, NUM[d - 1].lower() + sfx):
                R.append(call("to_chords", {"k": list(k), "d": d, "acc": 0, "suffix": sfx, "prog": list(a)},
                              lambda: progressions.to_chords(a, k), listof(names)))
            if d == 1:
                R.append(call("table", {"k": list(k), "seventh": sv}, lambda: (chords.sevenths if sv else chords.triads)(k), listof(names)))
                R.append(call("table", {"k": list(k), "seventh": sv, "asked": AGAIN}, again(lambda: (chords.sevenths if sv else chords.triads)(k)), listof(names)))
            R.append(call("function_name", dict(base, name=nmf, alias=False, asked=AGAIN), again(lambda: getattr(chords, nmf)(k)), names))
            R.append(call("to_chords", {"k": list(k), "d": d, "acc": 0, "suffix": sfx, "prog": list(NUM[d - 1] + sfx), "asked": AGAIN},
                          again(lambda: progressions.to_chords(NUM[d - 1] + sfx, k)), listof(names)))
        if d == 1:
            # the same questions in a freshly forked interpreter, sevenths asked before triads (nothing may depend on the order)
            import subprocess, sys, os, json
            script = ("import sys, os, json; sys.path.insert(0, os.environ['MINGUS_REPO'])\n"
                      "from mingus.core import chords, progressions\n"
                      "k = sys.argv[1]; out = {}\n"
                      "for key, fn in (('t7', lambda: chords.sevenths(k)), ('t3', lambda: chords.triads(k)), ('f3', lambda: chords.tonic(k)),\n"
                      "                ('p3', lambda: progressions.to_chords(['I'], k)), ('f7', lambda: chords.tonic7(k))):\n"
                      "    try: out[key] = ['ok', fn()]\n"
                      "    except Exception as e: out[key] = ['err', type(e).__name__]\n"
                      "print(json.dumps(out))\n")
            pr = subprocess.run([sys.executable, "-W", "ignore", "-c", script, k], stdout=subprocess.PIPE, stderr=subprocess.PIPE, text=True)
            if pr.returncode != 0:
                raise RuntimeError("fresh interpreter failed: " + pr.stderr[-800:])
            res = json.loads(pr.stdout.strip().splitlines()[-1])
            def got(key):
                def f():
                    if res[key][0] != "ok":
                        raise RuntimeError(res[key][1])
                    return res[key][1]
                return f
            R.append(call("table", {"k": list(k), "seventh": True, "order": "sevenths first"}, got("t7"), listof(names)))
            R.append(call("table", {"k": list(k), "seventh": False, "order": "sevenths first"}, got("t3"), listof(names)))
            R.append(call("function_name", {"k": list(k), "d": 1, "seventh": False, "name": "tonic", "alias": False, "order": "sevenths first"}, got("f3"), names))
            R.append(call("function_name", {"k": list(k), "d": 1, "seventh": True, "name": "tonic7", "alias": False, "order": "sevenths first"}, got("f7"), names))
            R.append(call("to_chords", {"k": list(k), "d": 1, "acc": 0, "suffix": "", "prog": ["I"], "order": "sevenths first"}, got("p3"), listof(names)))
    elif kd == "numeral":
        k, d, acc, sfx = txt(c["k"]), c["d"], c["acc"], c["suffix"]
        for roman in (NUM[d - 1], NUM[d - 1].lower()):
            s = txt(c["prefix"]) + roman + sfx
            R.append(call("to_chords", {"k": list(k), "d": d, "acc": acc, "suffix": sfx, "prog": list(s)},
                          lambda: progressions.to_chords([s], k), listof(names)))
        s = txt(c["prefix"]) + NUM[d - 1] + sfx
        if list(k) in (["C"], ["a"]):
            R.append(call("parse_format", {"s": list(s)}, lambda: progressions.tuple_to_string(progressions.parse_string(s)), nm))
            R.append(call("parse_string", {"s": list(s)}, lambda: progressions.parse_string(s),
                          lambda t: {"roman": t[0], "acc": integer(t[1]), "suffix": t[2]}))
    elif kd == "proglist":
        k = txt(c["k"])
        prog = [txt(x) for x in c["prog"]]
        R.append(call("to_chords_list", {"k": list(k), "prog": [list(x) for x in prog]}, lambda: progressions.to_chords(list(prog), k), listof(names)))
    elif kd == "badnumeral":
        s = c["text"]
        R.append(call("to_chords_bad", {"prog": list(s)}, lambda: progressions.to_chords(s, "C"), listof(names)))
        R.append(call("to_chords_bad", {"prog": list(s), "in_list": True}, lambda: progressions.to_chords(["I", s, "V"], "C"), listof(names)))
    elif kd == "function":
        k, d = txt(c["k"]), c["d"]
        for sv in (False, True):
            def f():
                ch = (chords.sevenths if sv else chords.triads)(k)[d - 1]
                ch = list(ch)
                num = MAJNUM[d - 1] + ("7" if sv else "")
                # the chord has been named on its own first (by the chord module, with its default flags)
                chords.determine(list(ch), True); chords.determine(list(ch))
                return {"chord": ch, "short": progressions.determine(list(ch), k, True), "long": progressions.determine(list(ch), k),
                        "back": progressions.to_chords(num, k)}
            rec = call("determine", {"k": list(k), "d": d, "seventh": sv}, f,
                       lambda o: {"chord": names(o["chord"]), "short": strs(o["short"]), "long": strs(o["long"]), "back": listof(names)(o["back"])})
            if rec["ok"]:
                rec["in"]["chord"] = rec["out"]["chord"]
            R.append(rec)
    elif kd == "subst":
        d = c["d"]
        target = txt(c["prefix"]) + NUM[d - 1] + c["suffix"]
        for prog, idx in ((["I", target, "V", "I"], 1), ([target], 0)):
            pin = [list(x) for x in prog]
            for fname in ("substitute_harmonic", "substitute_minor_for_major", "substitute_major_for_minor",
                          "substitute_diminished_for_diminished", "substitute_diminished_for_dominant"):
                for ign in (False, True):
                    def f():
                        arg = list(prog)
                        res = getattr(progressions, fname)(arg, idx, ign)
                        return {"res": res, "after": arg}
                    R.append(call(fname, {"prog": pin, "idx": idx, "ignore": ign}, f,
                                  lambda o: {"res": [nm(x) for x in o["res"]], "after": [nm(x) for x in o["after"]]}))
            for depth in (0, 1, 2):
                def g():
                    arg = list(prog)
                    res = progressions.substitute(arg, idx, depth)
                    return {"res": res, "after": arg}
                R.append(call("substitute", {"prog": pin, "idx": idx, "depth": depth}, g,
                              lambda o: {"res": [nm(x) for x in o["res"]], "after": [nm(x) for x in o["after"]]}))
    return R
