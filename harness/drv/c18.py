"""C18 driver: sequencer playback through a recording Sequencer subclass and a recording observer."""
from mingus.midi.sequencer import Sequencer
from mingus.midi.sequencer_observer import SequencerObserver
from mingus.containers import Note, NoteContainer
from mingus.containers.instrument import MidiInstrument
from .common import call, integer, boolean, Shape
from .program import mk_composition, built_ok, mk_note, mk_container

L = 215040


class RecSeq(Sequencer):
    def init(self):
        self.log = []
        self.bpm0 = 120

    def play_event(self, note, channel, velocity):
        self.log.append({"k": "play", "p": integer(note), "ch": integer(channel), "v": integer(velocity)})

    def stop_event(self, note, channel):
        self.log.append({"k": "stop", "p": integer(note), "ch": integer(channel), "v": 0})

    def cc_event(self, channel, control, value):
        self.log.append({"k": "cc", "p": integer(control), "ch": integer(channel), "v": integer(value)})

    def instr_event(self, channel, instr, bank):
        self.log.append({"k": "instr", "p": integer(instr), "ch": integer(channel), "v": integer(bank)})

    def sleep(self, seconds):
        # unit conversion only: seconds -> ticks (1/215040 whole note) at the initial tempo
        self.log.append({"k": "sleep", "p": int(round(seconds * self.bpm0 * L / 240.0)), "ch": 0, "v": 0})


class RecObs(SequencerObserver):
    def __init__(self, bpm0=120):
        self.log = []
        self.bpm0 = bpm0

    def play_int_note_event(self, int_note, channel, velocity):
        self.log.append({"k": "play", "p": integer(int_note), "ch": integer(channel), "v": integer(velocity)})

    def stop_int_note_event(self, int_note, channel):
        self.log.append({"k": "stop", "p": integer(int_note), "ch": integer(channel), "v": 0})

    def cc_event(self, channel, control, value):
        self.log.append({"k": "cc", "p": integer(control), "ch": integer(channel), "v": integer(value)})

    def instr_event(self, channel, instr, bank):
        self.log.append({"k": "instr", "p": integer(instr), "ch": integer(channel), "v": integer(bank)})

    def sleep(self, seconds):
        self.log.append({"k": "sleep", "p": int(round(seconds * self.bpm0 * L / 240.0)), "ch": 0, "v": 0})


def session(bpm0):
    s = RecSeq()
    s.bpm0 = bpm0
    o = RecObs(bpm0)
    s.attach(o)
    return s, o


def ret_bpm(r):
    if not isinstance(r, dict):
        raise Shape("dict expected as return value")
    if "bpm" not in r:
        return -1
    return integer(r["bpm"])


def play_rec(op, prog, fn, extra=None, warm=False):
    s, o = session(prog["bpm"])
    box = {}
    if warm:      # the same sequencer object has already played this once: the second playback is recorded
        try:
            fn(s)
        except Exception:
            pass
        del s.log[:]
        del o.log[:]
    def f():
        box["ret"] = ret_bpm(fn(s))
    r = call(op, dict(extra or {}), f, lambda _: 0)
    r["prog"] = prog
    r["events"] = s.log
    r["observer"] = o.log
    r["ret"] = box.get("ret", -1)
    return r


def run_case(c):
    R = []
    k = c["kind"]
    if k == "prog":
        p = c["prog"]
        try:
            comp = mk_composition(p)
            for t, tr in zip(p["tracks"], comp.tracks):
                if t["instr"]["kind"] == "midi":
                    tr.instrument = MidiInstrument(MidiInstrument.names[t["instr"]["nr"]])
                    tr.instrument.instrument_nr = t["instr"]["nr"]
            good = built_ok(p, comp)
        except Exception:
            good = False
        if not good:
            return [{"op": "build", "in": {}, "ok": False, "out": 0, "err": "construction"}]
        bpm = p["bpm"]
        n = len(comp.tracks)
        chans = list(range(1, n + 1))
        R.append(play_rec("play_Composition", p, lambda s: s.play_Composition(comp, None, bpm)))
        R.append(play_rec("play_Tracks", p, lambda s: s.play_Tracks(comp.tracks, chans, bpm)))
        # a sequencer that is used again, and tracks that share one channel
        R.append(play_rec("play_Tracks", p, lambda s: s.play_Tracks(comp.tracks, chans, bpm), {"warm": True}, warm=True))
        R.append(play_rec("play_Composition", p, lambda s: s.play_Composition(comp, None, bpm), {"warm": True}, warm=True))
        same = [5] * n
        R.append(play_rec("play_Tracks", p, lambda s: s.play_Tracks(comp.tracks, same, bpm), {"chans": same}))
        for bi in range(len(p["tracks"][0]["bars"])):
            sub = dict(p, tracks=[dict(t, bars=[t["bars"][bi]]) for t in p["tracks"]])
            R.append(play_rec("play_Bars", sub, lambda s: s.play_Bars([tr.bars[bi] for tr in comp.tracks], chans, bpm)))
        # sequential playback of each voice on a channel argument that differs from the notes' own channels
        for ti, t in enumerate(p["tracks"]):
            sub = dict(p, tracks=[t])
            R.append(play_rec("play_Track", sub, lambda s: s.play_Track(comp.tracks[ti], 9, bpm)))
            # the same voice built entry by entry through Track.add_notes (bars open by themselves) instead of bar by bar
            if all(list(b["meter"]) == [4, 4] for b in t["bars"]):
                from mingus.containers import Track as _Track
                from .values import build as _build
                alt = _Track()
                okb = True
                for b in t["bars"]:
                    for e in b["entries"]:
                        try:
                            if not alt.add_notes(None if e["rest"] else mk_container(e), _build(e["v"])):
                                okb = False
                        except Exception:
                            okb = False
                if okb and len(alt.bars) == len(t["bars"]):
                    R.append(play_rec("play_Track", sub, lambda s: s.play_Track(alt, 9, bpm), {"built": "add_notes"}))
            sub2 = dict(p, tracks=[dict(t, bars=[t["bars"][0]])])
            R.append(play_rec("play_Bar", sub2, lambda s: s.play_Bar(comp.tracks[ti].bars[0], 9, bpm)))
            for e in t["bars"][0]["entries"]:
                if not e["rest"]:
                    s, o = session(bpm)
                    nc = mk_container(e)
                    def f():
                        s.play_NoteContainer(nc, 9)
                        s.stop_NoteContainer(nc, 9)
                    r = call("play_NoteContainer", {"notes": e["notes"]}, f, lambda _: 0)
                    r["events"], r["observer"] = s.log, o.log
                    R.append(r)
                    s, o = session(bpm)
                    nt = mk_note(e["notes"][0])
                    def g():
                        s.play_Note(nt, 9, 55)
                        s.stop_Note(nt, 9)
                    r = call("play_Note", {"note": e["notes"][0]}, g, lambda _: 0)
                    r["events"], r["observer"] = s.log, o.log
                    R.append(r)
                    break
    elif k == "observers":
        def f():
            s = RecSeq()
            a, b = RecObs(), RecObs()
            s.attach(a); s.attach(a); s.attach(b)
            n1 = len(s.listeners)
            s.play_Note(Note("C", 4)); s.control_change(1, 7, 100); s.stop_Note(Note("C", 4))
            p1 = {"hook": list(s.log), "a": list(a.log), "b": list(b.log)}
            s.log, a.log, b.log = [], [], []
            s.detach(a)          # ONE detach after two attaches: delivery to A stops
            n2 = len(s.listeners)
            s.play_NoteContainer(NoteContainer(["E", "G"])); s.set_instrument(2, 40); s.stop_NoteContainer(NoteContainer(["E", "G"]))
            p2 = {"hook": list(s.log), "a": list(a.log), "b": list(b.log)}
            s.detach(a)          # detaching what is not attached changes nothing
            n3 = len(s.listeners)
            s.log, a.log, b.log = [], [], []
            s.attach(a)          # attached again after a detach: delivery resumes
            s.play_Note(Note("G", 3)); s.stop_Note(Note("G", 3))
            p3 = {"hook": list(s.log), "a": list(a.log), "b": list(b.log)}
            return {"p1": p1, "p2": p2, "p3": p3, "listeners": [n1 - 1, n1, n3] if False else [1 if n1 == 2 else 0, n1, n3]}
        R.append(call("observers", {}, f))
    elif k == "ccfrac":
        # numbers that are no integers, given as fractions num/den: outside 0..128 they must be refused like integers are
        for cn, cd, vn, vd in c["grid"]:
            def f():
                s, o = session(120)
                ret = s.control_change(3, cn / cd if cd != 1 else cn, vn / vd if vd != 1 else vn)
                return {"ret": boolean(ret), "events": s.log, "observer": o.log}
            R.append(call("cc_fraction", {"channel": 3, "cn": cn, "cd": cd, "vn": vn, "vd": vd}, f))
    elif k == "cc":
        for control, value in c["grid"]:
            def f():
                s, o = session(120)
                ret = s.control_change(3, control, value)
                return {"ret": boolean(ret), "events": s.log, "observer": o.log}
            R.append(call("cc", {"channel": 3, "control": control, "value": value}, f))
            # the named control changes (modulation = 1, main volume = 7, pan = 10) are control changes under another name
            for alias, nr in (("modulation", 1), ("main_volume", 7), ("pan", 10)):
                if control == nr or (control == 64 and nr != 1):
                    def g():
                        s, o = session(120)
                        ret = getattr(s, alias)(3, value)
                        return {"ret": boolean(ret), "events": s.log, "observer": o.log}
                    R.append(call("cc", {"channel": 3, "control": nr, "value": value, "via": alias}, g))
    return R
