"""X06 driver (extension): bookkeeping calls on one Composition and one Suite; members are identified by small integers."""
from mingus.containers import Composition, Track, Bar
from mingus.containers.suite import Suite
from .common import call, integer, Shape


def run_case(c):
    R = []
    comp, suite = Composition(), Suite()
    holders = [comp, suite]
    members = {}          # identity -> object (tracks for the composition, compositions for the suite)
    ident = {}            # id(object) -> identity

    def member(h, x):
        if x == 0:
            return Bar() if h == 1 else Track()        # an object of the wrong kind for this holder
        key = (h, x)
        if key not in members:
            members[key] = Track() if h == 1 else Composition()
            ident[id(members[key])] = x
        return members[key]

    def proj():
        out = []
        for hi, h in enumerate(holders):
            items = h.tracks if hi == 0 else h.compositions
            out.append({"title": h.title, "subtitle": h.subtitle, "author": h.author, "email": h.email,
                        "items": [ident.get(id(o), 0) for o in items], "len": integer(len(h)),
                        "index_ok": all(h[i] is items[i] for i in range(len(items)))})
        return out

    for k, a in enumerate(c["acts"]):
        h = holders[a["h"] - 1]
        def f():
            op = a["op"]
            if op == "add":
                (h.add_track if a["h"] == 1 else h.add_composition)(member(a["h"], a["x"]))
            elif op == "plus":
                h + member(a["h"], a["x"])
            elif op == "set_item":
                h[a["i"] - 1] = member(a["h"], a["x"])
            elif op == "set_title":
                h.set_title(a["s1"], a["s2"])
            elif op == "set_title_default":
                h.set_title() if a["h"] == 1 else h.set_title(a["s1"])
            elif op == "set_author":
                h.set_author(a["s1"], a["s2"])
            elif op == "empty":
                h.empty()
            elif op == "reset":
                h.reset()
            else:
                raise Shape("unknown call " + op)
            return 0
        r = call(a["op"], a, f)
        r["obs"] = proj()
        r["first"] = k == 0
        R.append(r)
    return R
