"""C10 / C11 (note level) driver: the Note object."""
import ast
from mingus.containers import Note
from .common import call, nm, txt, integer, boolean, Shape


def proj(n):
    return {"n": nm(n.name), "o": integer(n.octave)}


def full(n):
    return {"n": nm(n.name), "o": integer(n.octave), "vel": integer(n.velocity), "ch": integer(n.channel)}


def res12(x):
    r = int(round(x * 1e12))
    return max(-2 ** 30, min(2 ** 30, r))


def run_case(c):
    R = []
    k = c["kind"]
    if k == "note":
        n, o = txt(c["n"]), c["o"]
        i = {"n": list(n), "o": o}
        R.append(call("int", i, lambda: int(Note(n, o)), integer))
        R.append(call("text_forms", i, lambda: {"dash": int(Note("%s-%d" % (n, o))),
                                               "printed": int(Note(ast.literal_eval(repr(Note(n, o))))),
                                               "copy": int(Note(Note(n, o)))},
                      lambda d: {x: integer(y) for x, y in d.items()}))
        for sp in (440, 432):
            R.append(call("hz_spelling", dict(i, sp=sp), lambda: res12(Note(n, o).to_hertz(sp) / Note().from_int(int(Note(n, o))).to_hertz(sp) - 1) if int(Note(n, o)) >= 0 else 0))
            # doubling per octave asked by name (the lowest names, Cb-0 and Cbb-0, lie below pitch number 0)
            R.append(call("hz_octave", dict(i, sp=sp), lambda: res12(Note(n, o + 1).to_hertz(sp) / Note(n, o).to_hertz(sp) / 2 - 1)))
        def used():
            x = Note("C", 4)
            int(x); x == Note("D", 2); x < Note("E", 3); x.to_hertz()
            return x
        R.append(call("text_forms", dict(i, object="used before"),
                      lambda: {"dash": int((lambda x: (x.set_note("%s-%d" % (n, o)), x)[1])(used())),
                               "printed": int((lambda x: (x.set_note(ast.literal_eval(repr(Note(n, o)))), x)[1])(used())),
                               "copy": int((lambda x: (x.set_note(n, o), Note(x))[1])(used()))},
                      lambda d: {x: integer(y) for x, y in d.items()}))
        def cp(mkcopy=Note):
            a = Note(n, o)
            before = full(a)
            b = mkcopy(a)
            b2 = mkcopy(a)
            cb = full(b)
            b.augment(); b.change_octave(1); b.set_velocity(17); b.set_channel(3)
            after = full(a)
            ca = full(b)
            a.diminish(); a.change_octave(2); a.set_velocity(99)
            return {"orig_before": before, "orig_after": after, "copy_before": cb, "copy_after": ca, "copy2_after": full(b2)}
        import copy as _copy
        for via, mkcopy in (("Note(note)", Note), ("copy.copy", _copy.copy), ("copy.deepcopy", _copy.deepcopy)):
            R.append(call("copy", dict(i, via=via), lambda: cp(mkcopy)))
        def ad():
            a = Note(n, o); a.augment(); aug = proj(a); a.diminish(); back = proj(a)
            d = Note(n, o); d.diminish()
            return {"aug": aug, "back": back, "dim": proj(d)}
        R.append(call("augdim", i, ad))
    elif k == "int":
        i = c["i"]
        def f():
            x = Note().from_int(i)
            return {"n": nm(x.name), "o": integer(x.octave), "int": integer(int(x)), "ctor": integer(int(Note(i)))}
        R.append(call("from_int", {"i": i}, f))
        # the same on a note object that has been used before (its value read, compared, set by name)
        def g():
            x = Note("C", 4)
            int(x); x == Note("D", 2); x.set_note("E", 5); int(x)
            x.from_int(i)
            return {"n": nm(x.name), "o": integer(x.octave), "int": integer(int(x)), "ctor": integer(int(Note(x)))}
        R.append(call("from_int", {"i": i, "object": "used before"}, g))
    elif k == "pair":
        a, b = c["a"], c["b"]
        def f():
            x, y = Note(txt(a["n"]), a["o"]), Note(txt(b["n"]), b["o"])
            return {"lt": x < y, "le": x <= y, "eq": x == y, "ne": x != y, "gt": x > y, "ge": x >= y}
        R.append(call("cmp", {"a": a, "b": b}, f, lambda d: {x: boolean(y) for x, y in d.items()}))
    elif k == "sort":
        ns = c["notes"]
        R.append(call("sorted", {"notes": ns}, lambda: [proj(x) for x in sorted(Note(txt(q["n"]), q["o"]) for q in ns)]))
    elif k == "hz":
        i, sp = c["i"], c["sp"]
        if i == 57:
            R.append(call("hz_a4", {"sp": sp}, lambda: res12(Note("A", 4).to_hertz(sp) / sp - 1)))
        if i + 12 <= 139:
            R.append(call("hz_octave", {"i": i, "sp": sp}, lambda: res12(Note().from_int(i + 12).to_hertz(sp) / Note().from_int(i).to_hertz(sp) / 2 - 1)))
        for cents in (-40, -20, 0, 20, 40):
            R.append(call("hz_roundtrip", {"i": i, "sp": sp, "cents": cents},
                          lambda: int(Note().from_hertz(Note().from_int(i).to_hertz(sp) * 2 ** (cents / 1200.0), sp)), integer))
    elif k == "helmholtz":
        n, o = txt(c["n"]), c["o"]
        def f():
            sh = Note(n, o).to_shorthand()
            x = Note().from_shorthand(sh)
            return {"sh": nm(sh), "n": nm(x.name), "o": integer(x.octave)}
        R.append(call("helmholtz", {"n": list(n), "o": o}, f))
    elif k == "velocity":
        v = c["v"]
        def f1():
            x = Note("C", 4); x.set_velocity(v); return x.velocity
        R.append(call("velocity", {"v": v, "via": "set_velocity"}, f1, integer))
        R.append(call("velocity", {"v": v, "via": "constructor"}, lambda: Note("C", 4, velocity=v).velocity, integer))
        # every other way of giving a velocity: set_note with the keyword (plain and Name-octave text), the dynamics dictionary
        def vs(fn):
            def g():
                x = Note("D", 3); fn(x); return x.velocity
            return g
        R.append(call("velocity", {"v": v, "via": "set_note keyword"}, vs(lambda x: x.set_note("C", 4, velocity=v)), integer))
        R.append(call("velocity", {"v": v, "via": "set_note Name-octave text, keyword"}, vs(lambda x: x.set_note("C-4", velocity=v)), integer))
        R.append(call("velocity", {"v": v, "via": "set_note dynamics"}, vs(lambda x: x.set_note("C", 4, {"velocity": v})), integer))
        R.append(call("velocity", {"v": v, "via": "constructor dynamics"}, lambda: Note("C", 4, {"velocity": v}).velocity, integer))
        R.append(call("velocity", {"v": v, "via": "constructor Name-octave text, keyword"}, lambda: Note("C-4", velocity=v).velocity, integer))
        R.append(call("velocity", {"v": v, "via": "constructor Name-octave text, dynamics"}, lambda: Note("C-4", dynamics={"velocity": v}).velocity, integer))
        R.append(call("velocity", {"v": v, "via": "constructor, channel keyword given too"}, lambda: Note("C", 4, channel=3, velocity=v).velocity, integer))
        R.append(call("velocity", {"v": v, "via": "constructor, all arguments by position"}, lambda: Note("C", 4, None, v, 3).velocity, integer))
    elif k == "channel":
        ch = c["c"]
        def f2():
            x = Note("C", 4); x.set_channel(ch); return x.channel
        R.append(call("channel", {"c": ch, "via": "set_channel"}, f2, integer))
        R.append(call("channel", {"c": ch, "via": "constructor"}, lambda: Note("C", 4, channel=ch).channel, integer))
        def cs(fn):
            def g():
                x = Note("D", 3); fn(x); return x.channel
            return g
        R.append(call("channel", {"c": ch, "via": "set_note keyword"}, cs(lambda x: x.set_note("C", 4, channel=ch)), integer))
        R.append(call("channel", {"c": ch, "via": "set_note Name-octave text, keyword"}, cs(lambda x: x.set_note("C-4", channel=ch)), integer))
        R.append(call("channel", {"c": ch, "via": "set_note dynamics"}, cs(lambda x: x.set_note("C", 4, {"channel": ch})), integer))
        R.append(call("channel", {"c": ch, "via": "constructor dynamics"}, lambda: Note("C", 4, {"channel": ch}).channel, integer))
        R.append(call("channel", {"c": ch, "via": "constructor Name-octave text, keyword"}, lambda: Note("C-4", channel=ch).channel, integer))
        R.append(call("channel", {"c": ch, "via": "constructor Name-octave text, dynamics"}, lambda: Note("C-4", dynamics={"channel": ch}).channel, integer))
        R.append(call("channel", {"c": ch, "via": "constructor, velocity keyword given too"}, lambda: Note("C", 4, velocity=64, channel=ch).channel, integer))
        R.append(call("channel", {"c": ch, "via": "set_note, velocity keyword given too"}, cs(lambda x: x.set_note("C", 4, velocity=64, channel=ch)), integer))
    elif k == "badname":
        s = txt(c["s"])
        R.append(call("badname", {"s": list(s), "via": "constructor"}, lambda: proj(Note(s))))
        if "-" not in s:      # the same malformed name through the other ways of naming a note
            R.append(call("badname", {"s": list(s), "via": "constructor with octave"}, lambda: proj(Note(s, 4))))
            R.append(call("badname", {"s": list(s), "via": "set_note"}, lambda: proj((Note("D", 3).set_note(s), Note("D", 3))[1])))
            R.append(call("badname", {"s": list(s), "via": "name-octave text"}, lambda: proj(Note(s + "-4"))))
    elif k == "tr":
        n, o, sh = txt(c["n"]), c["o"], txt(c["sh"])
        for up in (True, False):
            def f():
                x = Note(n, o); x.transpose(sh, up); return proj(x)
            R.append(call("transpose", {"n": list(n), "o": o, "sh": list(sh), "up": up}, f))
        def g():
            x = Note(n, o); x.transpose(sh, True); x.transpose(sh, False); return proj(x)
        R.append(call("transpose_updown", {"n": list(n), "o": o, "sh": list(sh)}, g))
        if o == 4:      # the same for a note that carries its own channel and velocity (they play no part in its pitch)
            for up in (True, False):
                def f2():
                    x = Note(n, o, channel=9, velocity=31); x.transpose(sh, up); return proj(x)
                R.append(call("transpose", {"n": list(n), "o": o, "sh": list(sh), "up": up, "channel": 9, "velocity": 31}, f2))
    elif k == "tr2":
        # a second transposition applied to what a downward transposition from octave 0 left (names below C-0 live in octave -1)
        n, sh = txt(c["n"]), txt(c["sh"])
        def first():
            x = Note(n, 0); x.transpose(sh, False); return proj(x)
        r1 = call("transpose", {"n": list(n), "o": 0, "sh": list(sh), "up": False}, first)
        R.append(r1)
        if r1["ok"]:
            mid = r1["out"]
            for sh2 in ("2", "b3", "4", "5", "7", "1"):
                for up in (True, False):
                    def second():
                        x = Note(n, 0); x.transpose(sh, False); x.transpose(sh2, up); return proj(x)
                    R.append(call("transpose", {"n": mid["n"], "o": mid["o"], "sh": list(sh2), "up": up, "reached_by": "a downward transposition from octave 0"}, second))
    elif k == "octave":
        o, d, n = c["o"], c["diff"], txt(c["n"])
        def h():
            x = Note(n, o); x.change_octave(d); return x.octave
        R.append(call("change_octave", {"n": list(n), "o": o, "diff": d, "via": "change_octave"}, h, integer))
        if d in (1, -1):
            def h2():
                x = Note(n, o); (x.octave_up() if d == 1 else x.octave_down()); return x.octave
            R.append(call("change_octave", {"n": list(n), "o": o, "diff": d, "via": "octave_up/down"}, h2, integer))
    return R
