"""C03 driver: interval naming and interval shorthand."""
from mingus.core import intervals
from .common import call, nm, txt, names, Shape


def words(s):
    if not isinstance(s, str):
        raise Shape("text expected, got %s" % type(s).__name__)
    return s.split(" ")


def run_case(c):
    R = []
    k = c["kind"]
    if k == "pair":
        a, b = txt(c["a"]), txt(c["b"])
        i = {"a": list(a), "b": list(b)}
        R.append(call("determine", dict(i, short=False), lambda: intervals.determine(a, b), words))
        R.append(call("determine", dict(i, short=True), lambda: intervals.determine(a, b, True), nm))
        # the form chosen by keyword, after the other form has been answered (and the long form again by keyword)
        R.append(call("determine", dict(i, short=True, kw=True), lambda: intervals.determine(a, b, shorthand=True), nm))
        R.append(call("determine", dict(i, short=False, kw=True), lambda: intervals.determine(a, b, shorthand=False), words))
        R.append(call("inverse", i, lambda: intervals.from_shorthand(a, intervals.determine(a, b, True)), nm))
    elif k == "sh":
        n, sh = txt(c["n"]), txt(c["sh"])
        for up in (True, False):
            R.append(call("from_shorthand", {"n": list(n), "sh": list(sh), "up": up},
                          (lambda: intervals.from_shorthand(n, sh)) if up else (lambda: intervals.from_shorthand(n, sh, False)), nm))
        if c["rt"]:
            R.append(call("updown", {"n": list(n), "sh": list(sh)},
                          lambda: intervals.from_shorthand(intervals.from_shorthand(n, sh, True), sh, False), nm))
    elif k == "list":
        xs = [txt(x) for x in c["xs"]]
        arg = list(xs)
        R.append(call("invert", {"xs": [list(x) for x in xs]}, lambda: {"r": intervals.invert(arg), "after": arg},
                      lambda o: {"r": names(o["r"]), "after": names(o["after"])}))
    return R
