"""X08 driver (extension): registrations in the tuning registry, in a name space of the case's own, and the registry's answers."""
from mingus.extra import tunings
from .common import call, txt, nm, integer, Shape

SEARCHES = ["", "L", "l", "lu", "Lu", "LUT", "Lute", "H", "harp", "X"]
DESCRS = ["", "S", "stand", "Stand", "standard", "O", "Q"]


def strings_of(a):
    # a tuning recognisable by its first string (pitch 20 + id), with the asked number of strings and of strings per course
    base = tunings.Note().from_int(20 + a["id"]) if hasattr(tunings, "Note") else None
    from mingus.containers import Note
    first = Note().from_int(20 + a["id"])
    names = ["%s-%d" % (first.name, first.octave)] + ["%s-%d" % (n, 3) for n in "ADGBE"[: a["strings"] - 1]]
    if a["courses"] == 1:
        return names
    return [[x] * a["courses"] for x in names]


def ident(t):
    s = t.tuning[0]
    s = s[0] if isinstance(s, list) else s
    return integer(int(s)) - 20


def run_case(c):
    R = []
    ns = "Q%dX" % c["cid"]          # the name space of this case: every name and every search begins with it
    mine = lambda name: name.startswith(ns)
    for k, a in enumerate(c["acts"]):
        instr, descr = ns + txt(a["instr"]), txt(a["descr"])
        r = call("add_tuning", {"instr": a["instr"], "descr": a["descr"], "id": a["id"], "strings": a["strings"], "courses": a["courses"]},
                 lambda: tunings.add_tuning(instr, descr, strings_of(a)), lambda _: 0)
        def instruments():
            return [nm(x[len(ns):]) for x in tunings.get_instruments() if mine(x)]
        try:
            r["instruments"] = instruments()
        except Shape:
            raise
        except Exception:
            r["instruments"] = [["?"]]
        lists, firsts = [], []
        for s in SEARCHES:
            for (n_s, n_c) in ((0, 0), (4, 0), (6, 0), (0, 2), (4, 1)):
                q = {"search": list(s), "ns": n_s, "nc": n_c, "ok": True, "ids": []}
                try:
                    q["ids"] = [ident(t) for t in tunings.get_tunings(ns + s, n_s or None, n_c or None)]
                except Shape:
                    raise
                except Exception:
                    q["ok"] = False
                lists.append(q)
            for d in DESCRS:
                for (n_s, n_c) in ((0, 0), (4, 0), (0, 2)):
                    q = {"search": list(s), "descr": list(d), "ns": n_s, "nc": n_c, "ok": True, "ids": []}
                    try:
                        t = tunings.get_tuning(ns + s, d, n_s or None, n_c or None)
                        q["ids"] = [] if t is None else [ident(t)]
                    except Shape:
                        raise
                    except Exception:
                        q["ok"] = False
                    firsts.append(q)
        r["lists"], r["firsts"] = lists, firsts
        r["first"] = k == 0
        R.append(r)
    return R
