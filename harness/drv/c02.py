"""C02 driver: interval constructors, measure, consonance."""
from mingus.core import intervals
from .common import call, nm, txt, integer, boolean

CTORS = ["minor_unison", "major_unison", "augmented_unison", "minor_second", "major_second", "minor_third",
         "major_third", "minor_fourth", "major_fourth", "perfect_fourth", "minor_fifth", "major_fifth",
         "perfect_fifth", "minor_sixth", "major_sixth", "minor_seventh", "major_seventh"]


def run_case(c):
    R = []
    if c["kind"] == "name":
        s = txt(c["n"])
        for k in CTORS:
            R.append(call(k, {"n": list(s)}, lambda: getattr(intervals, k)(s), nm, timeout=5))
    else:
        a, b = txt(c["a"]), txt(c["b"])
        i = {"a": list(a), "b": list(b)}
        R.append(call("measure", i, lambda: intervals.measure(a, b), integer))
        R.append(call("is_imperfect_consonant", i, lambda: intervals.is_imperfect_consonant(a, b), boolean))
        for op in ("is_perfect_consonant", "is_consonant", "is_dissonant"):
            f = getattr(intervals, op)
            R.append(call(op, dict(i, f=2), lambda: f(a, b), boolean))
            R.append(call(op, dict(i, f=1), lambda: f(a, b, True), boolean))
            R.append(call(op, dict(i, f=0), lambda: f(a, b, False), boolean))
            # the flag given by keyword (both values), after the question has been answered with the default
            R.append(call(op, dict(i, f=0, kw=True), lambda: f(a, b, include_fourths=False), boolean))
            R.append(call(op, dict(i, f=1, kw=True), lambda: f(a, b, include_fourths=True), boolean))
            R.append(call(op, dict(i, f=2, again=True), lambda: f(a, b), boolean))
    return R
