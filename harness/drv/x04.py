"""X04 driver (extension): arbitrary call sequences on one MidiTrack; bytes and scalar state logged after every call."""
from mingus.midi.midi_track import MidiTrack
from mingus.containers import Note, NoteContainer, Bar
from .common import call, integer, boolean, txt, Shape

KEYS = None


def mk_note(x):
    return Note(txt(x["n"]), x["o"], velocity=x["vel"], channel=x["ch"])


def varbyte_value(b):
    if isinstance(b, int):
        raise Shape("delta_time is an int")
    v = 0
    for i, c in enumerate(bytes(b)):
        v = v * 128 + (c & 0x7F)
        if (c & 0x80) == 0 and i != len(b) - 1:
            raise Shape("delta_time is not one variable-length quantity")
    return v


def observe(t):
    return {"bytes": list(t.get_midi_data()), "delta": integer(varbyte_value(t.delta_time)), "delay": integer(t.delay),
            "chg": boolean(t.change_instrument), "instr": integer(t.instrument)}


def apply(box, a):
    op = a["op"]
    if op == "new":
        box["t"] = MidiTrack(a["bpm"])
        return
    t = box["t"]
    if op == "set_deltatime":
        t.set_deltatime(a["n"]) if a["n"] % 2 == 0 else t.set_deltatime(t.int_to_varbyte(a["n"]))
    elif op == "play_Note": t.play_Note(mk_note(a["notes"][0]))
    elif op == "stop_Note": t.stop_Note(mk_note(a["notes"][0]))
    elif op == "play_NoteContainer": t.play_NoteContainer(NoteContainer([mk_note(x) for x in a["notes"]]))
    elif op == "stop_NoteContainer": t.stop_NoteContainer(NoteContainer([mk_note(x) for x in a["notes"]]))
    elif op == "set_instrument": t.set_instrument(a["ch"], a["instr"], a["bank"])
    elif op == "arm_instrument":
        t.change_instrument = True
        t.instrument = a["instr"]
    elif op == "set_tempo": t.set_tempo(a["bpm"])
    elif op == "set_meter": t.set_meter(tuple(a["meter"]))
    elif op == "set_key": t.set_key(txt(a["key"]))
    elif op == "set_track_name": t.set_track_name(bytes(a["txt"]).decode("ascii"))
    elif op == "reset": t.reset()
    elif op == "play_Bar":
        b = Bar(txt(a["key"]), tuple(a["meter"]))
        for e in a["entries"]:
            if e["rest"]:
                ok = b.place_rest(e["v"])
            else:
                nc = NoteContainer([mk_note(x) for x in e["notes"]])
                if e["bpm"]:
                    nc.bpm = e["bpm"]
                ok = b.place_notes(nc, e["v"])
            if not ok:
                raise Shape("bar entry refused")
        t.play_Bar(b)
    else:
        raise Shape("unknown call " + op)


def run_case(c):
    R = []
    box = {}
    for k, a in enumerate(c["acts"]):
        r = call(a["op"], a, lambda: apply(box, a), lambda _: 0)
        q = call("observe", {}, lambda: observe(box["t"]))
        r["obs_ok"] = q["ok"]
        r["obs"] = q["out"] if q["ok"] else {"bytes": [], "delta": -1, "delay": -1, "chg": False, "instr": -1}
        r["first"] = k == 0
        R.append(r)
    return R


# ---- file level: a MidiFile over two tracks -------------------------------------------------
def run_file_case(c):
    from mingus.midi.midi_file_out import MidiFile
    R = []
    a, b = MidiTrack(120), MidiTrack(90)
    m = MidiFile([a, b])
    ts = [a, b]
    c4 = {"n": ["C"], "o": 4, "ch": 0, "vel": 100}
    for k, act in enumerate(c["acts"]):
        def f():
            if act["op"] == "note":
                t = ts[act["i"] - 1]
                t.set_deltatime(0); t.play_Note(mk_note(c4)); t.set_deltatime(72); t.stop_Note(mk_note(c4))
            elif act["op"] == "reset":
                ts[act["i"] - 1].reset()
            else:
                m.reset()
            return list(m.get_midi_data())
        r = call("file_" + act["op"], act, f)
        if not r["ok"]:
            r["out"] = []
        r["first"] = k == 0
        R.append(r)
    return R


_run_track_case = run_case


def run_case(c):
    return run_file_case(c) if c.get("kind") == "file" else _run_track_case(c)
