"""C07 driver: chord recognition."""
import re
from mingus.core import chords, intervals
from .common import err_name, spoil, AGAIN, call, nm, txt, names, Shape

_ROOT = re.compile(r"^([A-G][#b]*)(.*)$", re.S)


def split_short(name):
    m = _ROOT.match(name)
    if not m:
        raise Shape("chord name expected: %r" % (name,))
    return m.group(1), m.group(2)


def rebuild(name):
    try:
        return True, names(chords.from_shorthand(name))
    except Exception:
        return False, []


def short_entry(name):
    if not isinstance(name, str):
        raise Shape("text expected")
    if "|" in name:
        halves = []
        for h in name.split("|"):
            r, s = split_short(h)
            ok, _ = rebuild(h)
            halves.append({"root": list(r), "sh": s, "built": ok})
        ok, ch = rebuild(name)
        return {"poly": True, "text": name, "root": [], "sh": "", "halves": halves, "built": ok and all(h["built"] for h in halves), "chord": ch}
    r, s = split_short(name)
    ok, ch = rebuild(name)
    return {"poly": False, "text": name, "root": list(r), "sh": s, "halves": [], "built": ok, "chord": ch}


def long_entry(name):
    if not isinstance(name, str):
        raise Shape("text expected")
    if "|" in name:
        return {"poly": True, "text": name, "root": [], "meaning": "", "ord": []}
    if " " not in name:
        raise Shape("long chord name expected: %r" % (name,))
    root, rest = name.split(" ", 1)
    if ", " in rest:
        meaning, o = rest.split(", ", 1)
        ordw = o.split(" ")
    else:
        meaning, ordw = rest, []
    return {"poly": False, "text": name, "root": list(root), "meaning": meaning, "ord": ordw}


def both(chord, shared=False, edited=False, **kw):
    out = {"sok": True, "lok": True, "serr": "", "lerr": "", "short": [], "long": []}
    if edited:      # both forms asked once before, and the caller edited the answers it was handed
        for flag in (True, False):
            try:
                spoil(chords.determine(list(chord), flag, **kw))
            except Exception:
                pass
    if shared:      # one list object handed to both calls, as a caller holding a chord would do
        chord = list(chord)
        _list = lambda x: x
    else:
        _list = list
    try:
        s = chords.determine(_list(chord), True, **kw)
        if not isinstance(s, list):
            raise Shape("list expected")
        out["short"] = [short_entry(x) for x in s]
    except Exception as e:
        out["sok"], out["serr"] = False, err_name(e)
    try:
        g = chords.determine(_list(chord), False, **kw)
        if not isinstance(g, list):
            raise Shape("list expected")
        out["long"] = [long_entry(x) for x in g]
    except Exception as e:
        out["lok"], out["lerr"] = False, err_name(e)
    return out


def run_case(c):
    R = []
    k = c["kind"]
    chord = [txt(x) for x in c["chord"]]
    ch = [list(x) for x in chord]
    if k == "chord":
        i = {"kind": "chord", "chord": ch, "base": c["base"], "sh": c["sh"], "root": c["root"], "k": c["k"]}
        R.append(call("determine", dict(i, flags="default"), lambda: both(chord)))
        R.append(call("determine", dict(i, flags="no_polychords"), lambda: both(chord, no_polychords=True)))
        R.append(call("determine", dict(i, flags="default", same_list=True), lambda: both(chord, shared=True)))
        R.append(call("determine", dict(i, flags="default", asked=AGAIN), lambda: both(chord, edited=True)))
    elif k in ("triple", "random", "theory", "extended"):
        R.append(call("determine", {"kind": k, "chord": ch, "base": [], "k": 0, "flags": "default"}, lambda: both(chord)))
        if len(chord) == 3 or c.get("cid", 0) % 4 == 0:
            R.append(call("determine", {"kind": k, "chord": ch, "base": [], "k": 0, "flags": "default", "asked": AGAIN}, lambda: both(chord, edited=True)))
        if len(chord) >= 4:
            R.append(call("determine", {"kind": k, "chord": ch, "base": [], "k": 0, "flags": "default", "same_list": True}, lambda: both(chord, shared=True)))
    elif k == "small":
        def f():
            r = chords.determine(list(chord))
            o = {"r": [], "interval": []}
            if len(chord) == 2:
                o["r"] = [x.split(" ") for x in r]
                o["interval"] = intervals.determine(chord[0], chord[1]).split(" ")
            else:
                o["r"] = names(r)
            return o
        R.append(call("small", {"chord": ch, "shorthand": False}, f))
        def g():
            r = chords.determine(list(chord), True)
            o = {"r": [], "interval": []}
            if len(chord) == 2:
                o["r"] = [x.split(" ") for x in r]
                o["interval"] = intervals.determine(chord[0], chord[1]).split(" ")
            else:
                o["r"] = names(r)
            return o
        R.append(call("small", {"chord": ch, "shorthand": True}, g))
    return R
