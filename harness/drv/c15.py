"""C15 driver: no hidden shared state (call histories, argument snapshots, sibling instances)."""
import os, sys, json, copy, inspect
from .common import call, Shape

_NS = None


def ns():
    global _NS
    if _NS is None:
        from mingus.core import notes, keys, intervals, scales, chords, progressions, value, meter
        from mingus.extra import fft, tunings
        from mingus.containers import NoteContainer
        _NS = dict(notes=notes, keys=keys, intervals=intervals, scales=scales, chords=chords,
                   progressions=progressions, value=value, meter=meter, fft=fft, mut=mut, tunings=tunings, NoteContainer=NoteContainer)
    return _NS


def mut(x, how):
    """The caller changes a list it was handed."""
    if isinstance(x, tuple):
        return "tuple"
    if how == "append":
        x.append("X")
    elif how == "reverse":
        x.reverse()
    elif how == "clear":
        del x[:]
    elif how == "pop":
        if x:
            x.pop()
    elif how == "sort":
        x.sort()
    elif how == "setitem":
        if x:
            x[0] = "Q"
    return "mutated"


def canon(x, depth=0):
    """Type-tagged canonical text of a value (so a list of Notes never prints like a list of strings)."""
    if depth > 8:
        return "..."
    if x is None or isinstance(x, (bool, int, str)):
        return "%s:%r" % (type(x).__name__, x)
    if isinstance(x, float):
        return "float:%r" % (x,)
    if isinstance(x, bytes):
        return "bytes:" + x.hex()
    if isinstance(x, (list, tuple)):
        return "%s[%s]" % (type(x).__name__, ",".join(canon(i, depth + 1) for i in x))
    if isinstance(x, dict):
        return "dict{%s}" % ",".join("%s=%s" % (canon(k, depth + 1), canon(v, depth + 1)) for k, v in sorted(x.items(), key=lambda kv: repr(kv[0])))
    if isinstance(x, (set, frozenset)):
        return "set{%s}" % ",".join(sorted(canon(i, depth + 1) for i in x))
    d = getattr(x, "__dict__", None)
    if d is not None and not inspect.isroutine(x) and not inspect.isclass(x) and not inspect.ismodule(x):
        extra = ""
        if type(x).__name__ == "_Kit" and depth == 0:      # what the kit hands out now belongs to its observable state
            views = []
            for acc in ("cowbell", "acoustic_snare", "hand_clap"):
                try:
                    views.append("%s()=%s" % (acc, canon(getattr(x, acc)(), depth + 1)))
                except Exception as e:
                    views.append("%s()=raised:%s" % (acc, type(e).__name__))
            extra = "|" + ",".join(views)
        return "%s<%s%s>" % (type(x).__name__, ",".join("%s=%s" % (k, canon(v, depth + 1)) for k, v in sorted(d.items())), extra)
    return "%s:?" % type(x).__name__


def evaluate(expr):
    try:
        return canon(eval(expr, ns()))
    except Exception as e:
        return "raised:" + type(e).__name__


def in_child(fn):
    """Run fn() in a forked child (so that the parent interpreter stays cold); returns its JSON-able result."""
    r, w = os.pipe()
    pid = os.fork()
    if pid == 0:
        try:
            os.close(r)
            try:
                out = json.dumps(fn()).encode()
            except BaseException:
                import traceback
                out = json.dumps({"__child_error__": traceback.format_exc()[-1500:]}).encode()
            os.write(w, out)
        finally:
            os._exit(0)
    os.close(w)
    chunks = []
    while True:
        b = os.read(r, 1 << 16)
        if not b:
            break
        chunks.append(b)
    os.close(r)
    os.waitpid(pid, 0)
    res = json.loads(b"".join(chunks).decode())
    if isinstance(res, dict) and "__child_error__" in res:
        raise RuntimeError("harness child failed: " + res["__child_error__"])
    return res


# ---------------------------------------------------------------- (b) argument snapshots
CAND = {
    "note": ["C#", "Eb"], "note1": ["C", "E"], "note2": ["G", "Bb"], "start_note": ["D"], "startnote": ["D"],
    "key": ["G", "e"], "note_int": [5], "accidentals": ["b", 2], "chord": [["C", "E", "G"], ["D", "F#", "A", "C"]],
    "triad": [["C", "E", "G"]], "seventh": [["C", "E", "G", "B"]], "notes": [["A", "B", "C#"], ["C", "E", "G"]],
    "progression": [["I", "IV", "V7"], ["IIm7", "bVII"]], "substitute_index": [1, 0], "depth": [1, 2],
    "interval": [["C", "E", "G"], "b3", 2], "shorthand_string": ["Am7", ["C", "G7"]], "shorthand": [True, "3"],
    "value": [4, 12], "value1": [4], "value2": [8], "nr": [2], "rat1": [3], "rat2": [2], "meter": [(6, 8), [4, 4]],
    "duration": [4], "prog_tuple": [("I", -1, "m7")], "roman_numeral": ["V"], "skip_count": [2],
    "progression1": ["I"], "progression2": ["VI"], "up": [True, False], "ignore_suffix": [False, True],
    "no_inversions": [False], "no_polychords": [False], "include_fourths": [True], "slash": [None],
    "in_fourths": [True], "tries": [2], "octaves": [1],
}


def arg_sets(fn):
    try:
        sig = inspect.signature(fn)
    except (TypeError, ValueError):
        return []
    names = [p.name for p in sig.parameters.values() if p.kind in (p.POSITIONAL_ONLY, p.POSITIONAL_OR_KEYWORD)]
    if not names:
        return []
    out = []
    for k in range(3):
        args = []
        for n in names:
            c = CAND.get(n, ["C", ["C", "E", "G"], 3])
            args.append(copy.deepcopy(c[k % len(c)]))
        out.append(args)
    return out


def args_records():
    R = []
    from mingus.core import notes, keys, intervals, scales, chords, progressions, value, meter
    for mod in (notes, keys, intervals, scales, chords, progressions, value, meter):
        for name, fn in sorted(vars(mod).items()):
            if name.startswith("_") or not inspect.isfunction(fn) or fn.__module__ != mod.__name__:
                continue
            for args in arg_sets(fn):
                before = canon(args)
                try:
                    fn(*args)
                    outcome = "returned"
                except Exception as e:
                    outcome = "raised:" + type(e).__name__
                R.append({"op": "args", "in": {"f": "%s.%s" % (mod.__name__.split(".")[-1], name), "outcome": outcome},
                          "before": before, "after": canon(args), "ok": True, "err": "", "out": 0})
    # container-level calls that take lists / dicts
    from mingus.containers import Note, NoteContainer, Bar, Track, Composition
    from mingus.containers.instrument import Instrument
    def rec(label, fn, args):
        before = canon(args)
        try:
            fn(*args)
            outcome = "returned"
        except Exception as e:
            outcome = "raised:" + type(e).__name__
        R.append({"op": "args", "in": {"f": label, "outcome": outcome}, "before": before, "after": canon(args), "ok": True, "err": "", "out": 0})
    rec("Note(name, octave, dynamics)", lambda d: Note("C", 4, d, velocity=90, channel=3), [{"velocity": 70}])
    rec("Note(name, octave, dynamics) #2", lambda d: Note("C", 4, d), [{"velocity": 70, "channel": 2}])
    rec("Note.set_note(dynamics)", lambda d: Note().set_note("D", 3, d, velocity=10), [{}])
    rec("NoteContainer(list)", lambda xs: NoteContainer(xs), [["C", ["E", 5], "G"]])
    rec("NoteContainer.add_notes(list)", lambda xs: NoteContainer().add_notes(xs), [[Note("C"), "E", ["G", 3]]])
    rec("NoteContainer.remove_notes(list)", lambda xs: NoteContainer(["C", "E"]).remove_notes(xs), [["C", Note("E")]])
    rec("NoteContainer + list", lambda xs: NoteContainer() + xs, [["A", "C"]])
    rec("Bar.place_notes(list)", lambda xs: Bar().place_notes(xs, 4), [["C", "E"]])
    rec("Bar[i] = list", lambda xs: Bar().__setitem__(0, xs) if False else _bar_set(xs), [["C", "E"]])
    rec("Bar(key, meter)", lambda m: Bar("C", m), [[3, 4]])
    rec("Bar.set_meter", lambda m: Bar().set_meter(m), [[6, 8]])
    rec("Track.from_chords(nested list)", lambda xs: Track().from_chords(xs, 1), [["C", ["Am", ["Dm", "G7"]], None]])
    rec("Instrument.set_range(list of names)", lambda xs: Instrument().set_range(xs), [["C-2", "C-6"]])
    rec("Instrument.can_play_notes(list)", lambda xs: Instrument().can_play_notes(xs), [["C", "E"]])
    # the sequencer, the MIDI writer and the exporters take lists too (channels, tracks, bars, chord lists, note lists)
    from mingus.midi.sequencer import Sequencer
    class _Quiet(Sequencer):
        def sleep(self, seconds):
            pass
    def _comp(n):
        c = Composition()
        for i in range(n):
            t = Track(); t.add_notes("C", 4); t.add_notes(None, 4); t.add_notes(["E", "G"], 2); c.add_track(t)
        return c
    for nch in ([9], [1, 2], [1, 2, 3], []):
        rec("Sequencer.play_Composition(channels) %d of 2" % len(nch), lambda xs: _Quiet().play_Composition(_comp(2), xs), [list(nch)])
        rec("Sequencer.play_Tracks(tracks, channels) %d of 2" % len(nch), lambda ts, xs: _Quiet().play_Tracks(ts, xs), [_comp(2).tracks, list(nch)])
        rec("Sequencer.play_Bars(bars, channels) %d of 2" % len(nch), lambda bs, xs: _Quiet().play_Bars(bs, xs), [[t.bars[0] for t in _comp(2).tracks], list(nch)])
    from mingus.extra import tunings as _tun
    g = _tun.get_tuning("Guitar", "Standard")
    rec("StringTuning.find_fingering(list)", lambda xs: g.find_fingering(xs), [["E-3", "B-3", "E-4"]])
    rec("StringTuning.find_chord_fingering(list)", lambda xs: g.find_chord_fingering(xs), [["C", "E", "G"]])
    rec("StringTuning.frets_to_NoteContainer(list)", lambda xs: g.frets_to_NoteContainer(xs), [[0, 2, 2, 1, 0, 0]])
    rec("chords.determine(list, shorthand, no_inversion)", lambda xs: __import__("mingus.core.chords", fromlist=["x"]).determine(xs, True, True), [["C", "E", "G", "B"]])
    rec("chords.determine(list, no_polychords)", lambda xs: __import__("mingus.core.chords", fromlist=["x"]).determine(xs, False, False, True), [["C", "E", "G", "B", "D"]])
    rec("progressions.substitute(list, depth)", lambda xs: __import__("mingus.core.progressions", fromlist=["x"]).substitute(xs, 0, 2), [["I", "IV", "V", "I"]])
    return R


def _bar_set(xs):
    from mingus.containers import Bar
    b = Bar()
    b.place_notes("C", 4)
    b[0] = xs


# ---------------------------------------------------------------- (c) sibling instances
def class_table():
    from mingus.containers import Note, NoteContainer, Bar, Track, Composition
    from mingus.containers.suite import Suite
    from mingus.containers.instrument import Instrument, Piano, Guitar, MidiInstrument
    from mingus.midi.midi_track import MidiTrack
    from mingus.midi.midi_file_out import MidiFile
    from mingus.midi.sequencer import Sequencer
    from mingus.midi.sequencer_observer import SequencerObserver
    T = {}
    T["Note"] = (lambda: Note("C", 4), [lambda o: o.augment(), lambda o: o.change_octave(1), lambda o: o.set_velocity(11),
                                       lambda o: o.set_channel(5), lambda o: o.transpose("3"), lambda o: o.from_int(50),
                                       lambda o: o.set_note("Eb", 2), lambda o: o.empty(), lambda o: o.from_hertz(300)],
                 lambda o: Note(o))
    T["NoteContainer"] = (lambda: NoteContainer(["C", "E"]), [lambda o: o.add_note("G"), lambda o: o.add_notes(["B", ["D", 5]]),
                          lambda o: o.remove_note("C"), lambda o: o.transpose("2"), lambda o: o.augment(), lambda o: o.empty(),
                          lambda o: o.from_chord("Am7"), lambda o: o.__setitem__(0, "F") if len(o) else None, lambda o: o.sort()],
                          lambda o: NoteContainer(o))
    T["Bar"] = (lambda: Bar("C", (4, 4)), [lambda o: o.place_notes("C", 4), lambda o: o.place_rest(8), lambda o: o + ["E", "G"],
                lambda o: o.remove_last_entry() if len(o) else None, lambda o: o.set_meter((3, 4)), lambda o: o.transpose("3"),
                lambda o: o.augment(), lambda o: o.empty(), lambda o: o.__setitem__(0, "A") if len(o) else None], None)
    T["Track"] = (lambda: Track(), [lambda o: o.add_notes("C", 4), lambda o: o.add_notes(None, 2), lambda o: o + "E",
                  lambda o: o.add_bar(Bar("G", (3, 4))), lambda o: o.from_chords(["C", "Am"], 2), lambda o: o.transpose("2"),
                  lambda o: o.augment(), lambda o: setattr(o, "name", "lead"), lambda o: o.set_tuning("t")], None)
    T["Composition"] = (lambda: Composition(), [lambda o: o.add_track(Track()), lambda o: o.add_note("C"), lambda o: o + Track(),
                        lambda o: o.set_title("T", "S"), lambda o: o.set_author("A", "e"), lambda o: o.empty(), lambda o: o.reset()], None)
    T["Suite"] = (lambda: Suite(), [lambda o: o.add_composition(Composition()), lambda o: o + Composition(), lambda o: o.set_title("X"),
                  lambda o: o.set_author("Y"), lambda o: o.__setitem__(0, Composition()) if len(o) else None], None)
    for nm_, cls in (("Instrument", Instrument), ("Piano", Piano), ("Guitar", Guitar), ("MidiInstrument", MidiInstrument)):
        T[nm_] = (cls, [lambda o: o.set_range((Note("C", 2), Note("C", 5))), lambda o: setattr(o, "name", "x"),
                        lambda o: setattr(o, "tuning", "tu"), lambda o: setattr(o, "clef", "alto")], None)
    # a percussion kit hands out Notes through accessor methods: what another kit (or a later call) hands out must not depend
    # on what was done to a Note handed out before.  The kit's view includes what two of its accessors return now.
    from mingus.containers.instrument import MidiPercussionInstrument
    class _Kit(MidiPercussionInstrument):
        pass
    def _kit():
        k = _Kit()
        return k
    T["MidiPercussionInstrument"] = (_kit, [lambda o: o.cowbell().set_channel(9), lambda o: o.cowbell().octave_up(), lambda o: o.acoustic_snare().set_velocity(3),
                                            lambda o: o.cowbell().augment(), lambda o: o.hand_clap().transpose("3"), lambda o: setattr(o, "name", "kit")], None)
    T["MidiTrack"] = (lambda: MidiTrack(120), [lambda o: o.play_Note(Note("C", 4)), lambda o: o.stop_Note(Note("C", 4)), lambda o: o.set_deltatime(10),
                      lambda o: o.set_tempo(90), lambda o: o.set_instrument(1, 20), lambda o: o.play_Bar(_abar()), lambda o: o.reset(),
                      lambda o: o.set_track_name("n"), lambda o: o.play_Track(_atrack())], None)
    T["MidiFile"] = (lambda: MidiFile(), [lambda o: o.tracks.append(MidiTrack(100)), lambda o: o.reset(), lambda o: o.get_midi_data(),
                     lambda o: setattr(o, "time_division", b"\x00\x60")], None)
    T["Sequencer"] = (lambda: Sequencer(), [lambda o: o.attach(SequencerObserver()), lambda o: o.play_Note(Note("C", 4)), lambda o: o.stop_everything(),
                      lambda o: o.set_instrument(1, 5), lambda o: o.play_Bar(_abar(), 1, 120), lambda o: o.listeners.clear() if False else o.detach(o.listeners[0]) if o.listeners else None], None)
    return T


def _abar():
    from mingus.containers import Bar
    b = Bar()
    b.place_notes("C", 4)
    b.place_rest(4)
    b.place_notes(["E", "G"], 2)
    return b


def _atrack():
    from mingus.containers import Track
    t = Track()
    t.add_bar(_abar())
    return t


def defaults(cls):
    out = {}
    for k in cls.__mro__:
        if k is object:
            continue
        for n, v in vars(k).items():
            if n.startswith("__") or inspect.isroutine(v) or isinstance(v, (property, staticmethod, classmethod)):
                continue
            out.setdefault("%s.%s" % (k.__name__, n), canon(v))
    return canon(out)


def run_case(c):
    kind = c["kind"]
    ns()     # import the library in the parent (imports only; no theory call is made here)
    if kind == "cold":
        # every query in its own freshly forked interpreter
        return [{"op": "cold", "in": {}, "ok": True, "err": "", "out": 0, "q": q, "r": in_child(lambda: evaluate(q))} for q in c["queries"]]
    if kind == "history":
        def work():
            lines = []
            for e in c["hist"]:
                r = evaluate(e)
                if e.startswith("mut("):
                    lines.append({"op": "env", "q": e, "r": r, "phase": "history"})
                else:
                    lines.append({"op": "call", "q": e, "r": r, "phase": "history"})
            for q in c["battery"]:
                lines.append({"op": "call", "q": q, "r": evaluate(q), "phase": "battery"})
            return lines
        lines = in_child(work)
        R = [{"op": "begin", "in": {}, "ok": True, "err": "", "out": 0}]
        for q, r in c["cold"]:
            R.append({"op": "call", "in": {}, "ok": True, "err": "", "out": 0, "q": q, "r": r, "phase": "cold"})
        for ln in lines:
            R.append(dict(ln, **{"in": {}, "ok": True, "err": "", "out": 0}))
        return R
    if kind == "parts":
        # content handed out by ONE library call to several parts (tracks of a composition, entries of a track): changing one
        # part afterwards leaves the others as they were.  Only values are passed in (names), never objects of the caller.
        def work():
            from mingus.containers import Composition, Track
            lines = []
            def scenario(label, parts_of, ops):
                parts = parts_of()
                lines.append({"op": "new", "in": {"cls": label}, "objs": [canon(p) for p in parts], "defaults": ""})
                for k, f in enumerate(ops):
                    try:
                        f(parts[0])
                        outcome = "returned"
                    except Exception as e:
                        outcome = "raised:" + type(e).__name__
                    lines.append({"op": "step", "in": {"cls": label, "k": k, "outcome": outcome}, "recv": 1, "objs": [canon(p) for p in parts], "defaults": ""})
            def comp_tracks():
                c = Composition(); c.add_track(Track()); c.add_track(Track()); c.add_track(Track())
                c.selected_tracks = [0, 1, 2]
                c.add_note("C"); c.add_note("E-5")
                return list(c.tracks)
            track_ops = [lambda t: t.transpose("3"), lambda t: t.augment(), lambda t: t.bars[-1][0][2].add_note("B"), lambda t: t.bars[-1][0][2].empty()]
            scenario("tracks of a composition after add_note(name)", comp_tracks, track_ops)
            def chord_entries():
                t = Track().from_chords(["C", "F", "C", ["Am", "Am"]], 1)
                return [e[2] for b in t.bars for e in b.bar if e[2] is not None]
            nc_ops = [lambda n: n.transpose("2"), lambda n: n.add_note("B"), lambda n: n.notes[0].augment(), lambda n: n.empty()]
            scenario("entries of a track built from a chord list", chord_entries, nc_ops)
            def split_entries():
                # a chord longer than what is left of its bar is split across the bar line: two entries, two containers
                from mingus.containers import Bar
                t = Track()
                t.add_bar(Bar("C", (3, 4)))
                t.from_chords(["C", "Am"], 1)
                return [e[2] for b in t.bars for e in b.bar if e[2] is not None]
            scenario("entries of a track whose chords were split across bar lines", split_entries, nc_ops)
            def fingered_copies():
                # a container handed out by a tuning (its notes carry string and fret), and containers built from it
                from mingus.extra import tunings as _t
                from mingus.containers import NoteContainer as _NC
                src = _t.get_tuning("Guitar", "Standard").frets_to_NoteContainer([0, 0, 2, 2, 1, 0])
                return [src, _NC(src), _NC() + src, _NC().add_notes(src) and _NC(src)]
            scenario("a fingered container and containers built from it", fingered_copies, nc_ops)
            def chord_entries_tuned():
                from mingus.extra import tunings as _t
                t = Track()
                t.set_tuning(_t.get_tuning("Guitar", "Standard"))
                t.from_chords(["C", "G7", "C", ["Am", "Am"], "C"], 1)
                return [e[2] for b in t.bars for e in b.bar if e[2] is not None]
            scenario("entries of a track with a string tuning built from a chord list (fingered chords)", chord_entries_tuned, nc_ops)
            return lines
        return [{"op": "begin", "in": {}, "ok": True, "err": "", "out": 0}] + [dict(ln, ok=True, err="", out=0) for ln in in_child(work)]
    if kind == "args":
        return [{"op": "begin", "in": {}, "ok": True, "err": "", "out": 0}] + in_child(args_records)
    if kind == "siblings":
        def work():
            T = class_table()
            mk, ops, cp = T[c["cls"]]
            objs = [mk(), mk()]
            cls = type(objs[0])
            lines = [{"op": "new", "in": {"cls": c["cls"]}, "objs": [canon(o) for o in objs], "defaults": defaults(cls)}]
            for recv, k in c["script"]:
                if cp is not None and k == 11:
                    try:
                        objs.append(cp(objs[recv - 1]))
                        outcome = "returned"
                    except Exception as e:
                        outcome = "raised:" + type(e).__name__
                    lines.append({"op": "copy", "in": {"cls": c["cls"], "src": recv, "outcome": outcome}, "objs": [canon(o) for o in objs], "defaults": defaults(cls)})
                    continue
                if k >= 10 and len(objs) > 2:
                    recv = len(objs)        # operate on the most recent copy
                f = ops[k % len(ops)]
                try:
                    f(objs[recv - 1])
                    outcome = "returned"
                except Exception as e:
                    outcome = "raised:" + type(e).__name__
                lines.append({"op": "step", "in": {"cls": c["cls"], "k": k % len(ops), "outcome": outcome}, "recv": recv,
                              "objs": [canon(o) for o in objs], "defaults": defaults(cls)})
            return lines
        lines = in_child(work)
        return [{"op": "begin", "in": {}, "ok": True, "err": "", "out": 0}] + [dict(ln, ok=True, err="", out=0) for ln in lines]
    raise Shape("unknown case kind")
