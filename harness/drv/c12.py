"""C12 driver: NoteContainer behaviours and shorthand constructors."""
from mingus.containers import Note, NoteContainer
from .common import observe, call, nm, txt, integer, boolean, names, Shape


def proj(nc):
    return [{"n": nm(x.name), "o": integer(x.octave)} for x in nc.notes]


def item(it):
    if it["t"] == "bare":
        return txt(it["n"])
    if it["t"] == "pair":
        return [txt(it["n"]), it["o"]]
    return Note(txt(it["n"]), it["o"])


def rm_item(it):
    return txt(it["n"]) if it["t"] == "bare" else Note(txt(it["n"]), it["o"])


def other(notes):
    o = NoteContainer()
    for x in notes:
        o.add_note(Note(txt(x["n"]), x["o"]))
    return o


KEPT = []   # argument containers handed to the container under test; they must stay as built


def apply(nc, a):
    op = a["op"]
    if op == "empty":
        nc.empty()
    elif op == "add_note_obj":
        # every other time the note carries its own channel and velocity (they play no part in which pitches a container holds)
        if len(nc.notes) % 2:
            nc.add_note(Note(txt(a["n"]), a["o"], channel=7, velocity=33))
        else:
            nc.add_note(Note(txt(a["n"]), a["o"]))
    elif op == "add_bare":
        nc.add_note(txt(a["n"]))
    elif op == "add_name_oct":
        form = len(nc.notes) % 3          # plain; with a dynamics dictionary; as a [name, octave, dynamics] list element
        if form == 0:
            nc.add_note(txt(a["n"]), a["o"])
        elif form == 1:
            nc.add_note(txt(a["n"]), a["o"], {"channel": 5, "velocity": 20})
        else:
            nc.add_notes([[txt(a["n"]), a["o"], {"channel": 9}]])
    elif op == "add_list":
        nc.add_notes([item(i) for i in a["items"]])
    elif op == "plus_list":
        r = nc + [item(i) for i in a["items"]]
        if r is not nc:
            raise Shape("+ must return the container")
    elif op == "add_container":
        o = other(a["notes"]); KEPT.append((proj(o), o)); nc.add_notes(o)
    elif op == "plus_container":
        o = other(a["notes"]); KEPT.append((proj(o), o)); r = nc + o
        if r is not nc:
            raise Shape("+ must return the container")
    elif op == "remove_name":
        nc.remove_note(txt(a["n"]))
    elif op == "remove_name_oct":
        nc.remove_note(txt(a["n"]), a["o"])
    elif op == "remove_obj":
        # the three ways of taking one Note object out (chosen by the size of the container, so that a case is reproducible)
        form = len(nc.notes) % 3
        if form == 0:
            nc.remove_note(Note(txt(a["n"]), a["o"]))
        elif form == 1:
            nc.remove_notes(Note(txt(a["n"]), a["o"]))
        else:
            r = nc - Note(txt(a["n"]), a["o"])
            if r is not nc:
                raise Shape("- must return the container")
    elif op == "remove_list":
        nc.remove_notes([rm_item(i) for i in a["items"]])
    elif op == "minus_list":
        r = nc - [rm_item(i) for i in a["items"]]
        if r is not nc:
            raise Shape("- must return the container")
    else:
        raise Shape("unknown action " + op)


PROBES = [("C", 4), ("B#", 3), ("Db", 4), ("E", 4), ("G", 5), ("C", 5)]


_RESPELL = {"C": ("B#", -1), "D": ("C##", 0), "E": ("Fb", 0), "F": ("E#", 0), "G": ("F##", 0), "A": ("G##", 0), "B": ("Cb", 1),
            "C#": ("Db", 0), "D#": ("Eb", 0), "F#": ("Gb", 0), "G#": ("Ab", 0), "A#": ("Bb", 0),
            "Db": ("C#", 0), "Eb": ("D#", 0), "Gb": ("F#", 0), "Ab": ("G#", 0), "Bb": ("A#", 0),
            "B#": ("C", 1), "E#": ("F", 0), "Cb": ("B", -1), "Fb": ("E", 0)}


def respelled(x):
    """the same note under another name (plain table; names not in the table are kept)"""
    n2, d = _RESPELL.get(txt(x["n"]), (txt(x["n"]), 0))
    return {"n": list(n2), "o": x["o"] + d}


def query(nc):
    cur = proj(nc)
    eqs = []
    variants = [list(reversed(cur)), cur[:-1], cur + [{"n": ["A"], "o": 7}],
                [dict(x, o=x["o"]) for x in cur[:-1]] + ([{"n": ["A"], "o": 7}] if cur else []),
                [respelled(x) for x in cur], [respelled(x) for x in cur[:1]] + cur[1:]]      # the same pitches under other names
    for v in variants:
        eqs.append({"other": v, "r": boolean(nc == other(v))})
    return {
        "len": integer(len(nc)),
        "names": names(nc.get_note_names()),
        "probes": [{"n": list(n), "o": o, "r": boolean(Note(n, o) in nc)} for n, o in PROBES],
        "eqs": eqs,
        "cons": [boolean(nc.is_consonant()), boolean(nc.is_consonant(False))],
        "perf": [boolean(nc.is_perfect_consonant()), boolean(nc.is_perfect_consonant(False))],
        "imperf": boolean(nc.is_imperfect_consonant()),
        "diss": [boolean(nc.is_dissonant()), boolean(nc.is_dissonant(True))],
    }


def run_case(c):
    R = []
    k = c["kind"]
    if k == "behaviour":
        nc = NoteContainer()
        del KEPT[:]
        R.append(dict(call("new", {}, lambda: None, lambda _: 0), obs=proj(nc)))
        # establish the start state through the public API (explicit octaves), then the actions
        steps = [{"op": "add_name_oct", "n": x["n"], "o": x["o"]} for x in c["state"]] + c["acts"]
        for k_, a in enumerate(steps):
            inp = {kk: vv for kk, vv in a.items() if kk != "op"}
            rec = call(a["op"], inp, lambda: apply(nc, a), lambda _: 0)
            observe(rec, lambda: proj(nc), R[-1]["obs"] if R else [])
            rec["others"] = [{"built": b, "now": proj(o)} for b, o in KEPT]
            if len(R) % 3 == 0 and rec["ok"]:
                # a second container built FROM this one (constructor, and '+' on an empty one) and then edited by its owner
                try:
                    before = proj(nc)
                    for twin in (NoteContainer(nc), NoteContainer() + nc):
                        twin.add_note(Note("A", 7)); twin + "B"; twin.add_notes(["D-1"])
                    rec["others"] = rec["others"] + [{"built": before, "now": proj(nc)}]
                except Exception:
                    rec["others"] = rec["others"] + [{"built": before, "now": [{"n": ["?"], "o": 0}]}]
            R.append(rec)
            # the questions are asked after most steps, not all: every third step is followed directly by the next one
            if c.get("queries", True) and ((k_ + c.get("cid", 0)) % 3 != 1 or k_ == len(steps) - 1):
                q = call("query", {}, lambda: query(nc))
                q["obs"] = []
                R.append(q)
    elif k == "chord":
        root, sh = txt(c["root"]), c["sh"]
        for alias in ("from_chord_shorthand", "from_chord"):
            rec = call("from_chord_shorthand", {"root": list(root), "sh": sh, "via": alias}, lambda: proj(getattr(NoteContainer(), alias)(root + sh)))
            rec["obs"] = rec["out"] if rec["ok"] else []
            rec["out"] = 0
            R.append(rec)
    elif k == "interval":
        n, sh = txt(c["n"]), txt(c["sh"])
        for alias in ("from_interval_shorthand", "from_interval"):
            rec = call("from_interval_shorthand", {"n": list(n), "sh": list(sh), "via": alias}, lambda: proj(getattr(NoteContainer(), alias)(n, sh)))
            rec["obs"] = rec["out"] if rec["ok"] else []
            rec["out"] = 0
            R.append(rec)
    elif k == "numeral":
        key, prog = txt(c["k"]), txt(c["prog"])
        for alias, kw in (("from_progression_shorthand", False), ("from_progression", False), ("from_progression", True)):
            rec = call("from_progression_shorthand", {"k": list(key), "prog": list(prog), "via": alias, "kw": kw},
                       lambda: proj(getattr(NoteContainer(), alias)(prog, key=key) if kw else getattr(NoteContainer(), alias)(prog, key)))
            rec["obs"] = rec["out"] if rec["ok"] else []
            rec["out"] = 0
            R.append(rec)
    return R
