"""X02 driver (extension): Standard MIDI Files not written by mingus, through the low-level reader."""
import os, tempfile
from mingus.midi.midi_file_in import MidiFile
from .common import call, integer, Shape

KIND = {8: "off", 9: "on", 10: "at", 11: "cc", 12: "pc", 13: "cp", 14: "pb", 15: "meta"}


def project(res):
    header, tracks = res
    fmt, ntr, div = header
    out = {"format": integer(fmt), "ntrks": integer(ntr), "fps": bool(div.get("fps")),
           "division": integer(div.get("ticks_per_beat", -1)), "tracks": []}
    for tr in tracks:
        evs = []
        for delta, ev in tr:
            k = KIND.get(ev["event"])
            if k is None:
                raise Shape("unknown event code %r" % (ev["event"],))
            if k == "meta":
                evs.append({"d": integer(delta), "k": "meta", "ch": 0, "a": integer(ev["meta_event"]), "b": 0, "data": [integer(x) for x in bytes(ev["data"])]})
            else:
                evs.append({"d": integer(delta), "k": k, "ch": integer(ev["channel"]), "a": integer(ev["param1"]), "b": integer(ev.get("param2", 0)), "data": []})
        out["tracks"].append(evs)
    return out


def run_case(c):
    fd, path = tempfile.mkstemp(suffix=".mid", dir=os.environ.get("VERIF_WORK") or None)
    try:
        with os.fdopen(fd, "wb") as f:
            f.write(bytes(c["bytes"]))
        r = call("parse", {"f": c["f"], "ru": c["ru"]}, lambda: MidiFile().parse_midi_file(path), project)
    finally:
        os.remove(path)
    if not r["ok"]:
        r["out"] = {"format": -1, "ntrks": -1, "fps": False, "division": -1, "tracks": []}
    return [r]
