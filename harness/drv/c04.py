"""C04 driver: keys."""
from mingus.core import keys, intervals
from .common import call, nm, txt, integer, boolean, names, Shape


def keyobj(k):
    return {"name": [w for w in nm_words(k.name)], "mode": text(k.mode), "signature": integer(k.signature), "key": nm(k.key)}


def nm_words(s):
    if not isinstance(s, str):
        raise Shape("text expected")
    return s.split(" ")


def text(s):
    if not isinstance(s, str):
        raise Shape("text expected")
    return s


def pair(t):
    if not isinstance(t, (tuple, list)) or len(t) != 2:
        raise Shape("pair expected")
    return [nm(t[0]), nm(t[1])]


FRESH = r"""
import sys, os, json
sys.path.insert(0, os.environ['MINGUS_REPO'])
from mingus.core import keys
out = {}
for couple in keys.keys:
    for k in couple:
        try:
            a = keys.get_notes(k)          # the first question about this key in this interpreter
            a.reverse(); a.pop(); a.append('X')
            acc = keys.get_key_signature_accidentals(k)
            acc.sort(); acc.append('X')
            out[k] = ['ok', [list(keys.get_notes(k)), list(keys.get_notes(k))], list(keys.get_key_signature_accidentals(k))]
        except Exception as e:
            out[k] = ['err', type(e).__name__]
print(json.dumps(out))
"""


def run_case(c):
    R = []
    if c["kind"] == "fresh":
        # every key asked for the first time in a fresh interpreter, the answer edited by the caller, and asked again
        import subprocess, sys, json
        pr = subprocess.run([sys.executable, "-W", "ignore", "-c", FRESH], stdout=subprocess.PIPE, stderr=subprocess.PIPE, text=True)
        if pr.returncode != 0:
            raise RuntimeError("fresh interpreter failed: " + pr.stderr[-800:])
        res = json.loads(pr.stdout.strip().splitlines()[-1])
        for k in sorted(res):
            def gn(k=k):
                if res[k][0] != "ok":
                    raise RuntimeError(res[k][1])
                return res[k][1]
            def ga(k=k):
                if res[k][0] != "ok":
                    raise RuntimeError(res[k][1])
                return res[k][2]
            i = {"k": list(k), "asked": "first in a fresh interpreter, edited by the caller, asked again"}
            R.append(call("get_notes", i, gn, lambda o: [names(o[0]), names(o[1])]))
            R.append(call("get_key_signature_accidentals", i, ga, names))
        return R
    kd = c["kind"]
    if kd == "key":
        k = txt(c["k"])
        i = {"k": list(k)}
        R.append(call("is_valid_key", i, lambda: keys.is_valid_key(k), boolean))
        R.append(call("get_key_signature", i, lambda: keys.get_key_signature(k), integer))
        # the same questions with the key given by keyword (the argument is called `key` everywhere)
        R.append(call("get_key_signature", dict(i, given="keyword"), lambda: keys.get_key_signature(key=k), integer))
        R.append(call("get_key_signature_accidentals", dict(i, given="keyword"), lambda: keys.get_key_signature_accidentals(key=k), names))
        R.append(call("get_notes", dict(i, given="keyword"), lambda: [list(keys.get_notes(key=k)), list(keys.get_notes(key=k))], lambda o: [names(o[0]), names(o[1])]))
        R.append(call("Key", dict(i, given="keyword"), lambda: keys.Key(key=k), keyobj))
        R.append(call("get_key_signature_accidentals", i, lambda: keys.get_key_signature_accidentals(k), names))
        # the caller edits the list it was handed and asks again (the answer is about the key, not about the caller)
        def again():
            a = keys.get_key_signature_accidentals(k)
            a.sort(); a.append("X"); a[:] = a[1:]
            return keys.get_key_signature_accidentals(k)
        R.append(call("get_key_signature_accidentals", dict(i, asked="again after the caller edited the first answer"), again, names))
        def again_notes():
            a = keys.get_notes(k)
            a.reverse(); a.pop()
            return [list(keys.get_notes(k)), list(keys.get_notes(k))]
        R.append(call("get_notes", dict(i, asked="again after the caller edited the first answer"), again_notes, lambda o: [names(o[0]), names(o[1])]))
        R.append(call("get_notes", i, lambda: [list(keys.get_notes(k)), list(keys.get_notes(k))], lambda o: [names(o[0]), names(o[1])]))
        R.append(call("relative_major", i, lambda: keys.relative_major(k), nm))
        R.append(call("relative_minor", i, lambda: keys.relative_minor(k), nm))
        R.append(call("Key", i, lambda: keys.Key(k), keyobj))
    elif kd == "after":
        from .c15 import in_child
        k1 = txt(c["k1"])
        for k2c in c["k2s"]:
            k2 = txt(k2c)
            def f():
                def work():
                    keys.get_notes(k1)
                    return list(keys.get_notes(k2))
                return in_child(work)
            R.append(call("get_notes_after", {"k1": list(k1), "k2": list(k2)}, f, names))
    elif kd == "sig":
        R.append(call("get_key", {"i": c["i"]}, lambda: keys.get_key(c["i"]), pair))
    elif kd == "step":
        k, n = txt(c["k"]), txt(c["n"])
        i = {"k": list(k), "n": list(n)}
        for st, op in enumerate(["second", "third", "fourth", "fifth", "sixth", "seventh"], 1):
            f = getattr(intervals, op)
            R.append(call(op, i, lambda: f(n, k), nm))
            R.append(call("interval", dict(i, i=st), lambda: intervals.interval(k, n, st), nm))
    return R
