"""C16 driver: MIDI file output (bytes of every writer) and the variable-length encoder."""
import os, tempfile
from mingus.midi import midi_file_out
from mingus.midi.midi_track import MidiTrack
from .common import call, Shape
from .program import mk_composition, mk_note, mk_container, built_ok


def file_bytes(fn):
    d = tempfile.mkdtemp(prefix="c16_", dir=os.environ.get("VERIF_WORK") if os.path.isdir(os.environ.get("VERIF_WORK", "")) else None)
    path = os.path.join(d, "out.mid")
    try:
        ok = fn(path)
        if ok is not True:
            raise Shape("writer did not report success")
        with open(path, "rb") as f:
            return list(f.read())
    finally:
        try:
            if os.path.exists(path):
                os.remove(path)
            os.rmdir(d)
        except OSError:
            pass


def sub(p, writer, tracks):
    return {"bpm": p["bpm"], "repeat": p["repeat"], "writer": writer, "tracks": tracks}


def first_sounding(p):
    for b in p["tracks"][0]["bars"]:
        for e in b["entries"]:
            if not e["rest"]:
                return b, e
    return None, None


def run_case(c):
    R = []
    if c["kind"] == "vlq":
        for n in c["ns"]:
            R.append(call("vlq", {"n": n}, lambda: list(MidiTrack().int_to_varbyte(n))))
        return R
    p = c["prog"]
    bpm, rep = p["bpm"], p["repeat"]
    try:
        comp = mk_composition(p)
        good = built_ok(p, comp)
    except Exception as e:
        good = False
    if not good:
        return [{"op": "build", "in": {}, "ok": False, "out": 0, "err": "construction"}]
    def rec(writer, prog, fn):
        r = call("file", {}, lambda: file_bytes(fn))
        r["prog"] = prog
        r["bytes"] = r["out"] if r["ok"] else []
        r["out"] = 0
        R.append(r)
    rec("composition", sub(p, "composition", p["tracks"]), lambda f: midi_file_out.write_Composition(f, comp, bpm, rep))
    # the same program with its rests held as empty NoteContainers instead of None (both mean silence of that length)
    if any(e["rest"] for t in p["tracks"] for b in t["bars"] for e in b["entries"]):
        from . import program as _pg
        _pg.REST_AS_EMPTY_CONTAINER[0] = True
        try:
            comp2 = mk_composition(p)
        finally:
            _pg.REST_AS_EMPTY_CONTAINER[0] = False
        if built_ok(p, comp2):
            rec("composition", sub(p, "composition", p["tracks"]), lambda f: midi_file_out.write_Composition(f, comp2, bpm, rep))
    t0 = p["tracks"][0]
    rec("track", sub(p, "track", [t0]), lambda f: midi_file_out.write_Track(f, comp.tracks[0], bpm, rep))
    if c.get("subwriters", True):
        b0 = t0["bars"][0]
        t0 = dict(t0, instr={"kind": "none", "nr": 0})     # the bar / container / note writers know no instrument
        rec("bar", sub(p, "bar", [dict(t0, bars=[b0])]), lambda f: midi_file_out.write_Bar(f, comp.tracks[0].bars[0], bpm, rep))
        b, e = first_sounding(p)
        if e is not None:
            lone = dict(t0, bars=[dict(b, entries=[e])])
            rec("container", sub(p, "container", [lone]), lambda f: midi_file_out.write_NoteContainer(f, mk_container(e), bpm, rep))
            e1 = dict(e, notes=e["notes"][:1])
            lone1 = dict(t0, bars=[dict(b, entries=[e1])])
            rec("note", sub(p, "note", [lone1]), lambda f: midi_file_out.write_Note(f, mk_note(e["notes"][0]), bpm, rep))
    return R
