"""C14 driver: Track and Composition behaviours."""
from mingus.containers import Bar, Note, NoteContainer, Track, Composition
from mingus.containers.instrument import Instrument, Piano, Guitar, MidiInstrument
from .common import observe, call, nm, txt, integer, boolean, Shape
from .values import build
from .c13 import bar_proj, content

KINDS = {"none": lambda: None, "generic": Instrument, "piano": Piano, "guitar": Guitar, "midi": MidiInstrument}


def kind_of(i):
    if i is None:
        return "none"
    for k, cls in (("midi", MidiInstrument), ("guitar", Guitar), ("piano", Piano), ("generic", Instrument)):
        if type(i) is cls:
            return k
    raise Shape("unknown instrument %r" % (i,))


def track_proj(t):
    return {"instr": kind_of(t.instrument), "bars": [bar_proj(b) for b in t.bars]}


def state(tracks, sel):
    return {"tracks": [track_proj(t) for t in tracks], "sel": [integer(x) for x in sel]}


def nest(items, d=0):
    out, i = [], 0
    while i < len(items):
        if items[i]["depth"] <= d:
            it = items[i]
            out.append(None if it["rest"] else txt(it["root"]) + it["sh"])
            i += 1
        else:
            j = i
            while j < len(items) and items[j]["depth"] > d:
                j += 1
            out.append(nest(items[i:j], d + 1))
            i = j
    return out


def given_bar(a):
    b = Bar(txt(a["key"]), tuple(a["meter"]))
    if a["filled"]:
        for _ in range(a["meter"][0]):
            b.place_rest(a["meter"][1])
    return b


def apply_track(t, a, k=0):
    op = a["op"]
    if op == "add_notes":
        arg = content(a["arg"], "nc" if k % 2 else "list")
        if arg is not None and len(a["arg"]["items"]) == 1 and k % 3 == 0:
            arg = arg[0] if isinstance(arg, list) else arg
        if isinstance(arg, list) and len(arg) >= 2 and all(isinstance(x, Note) for x in arg):
            # one list mixing the documented ways of naming a note with its octave: the Note object, 'Name-octave' text and,
            # where no instrument has to judge the range (it takes notes and text only), the [name, octave] pair
            kinds = 3 if t.instrument is None else 2
            arg = [x if (k + i) % kinds == 0 else "%s-%d" % (x.name, x.octave) if (k + i) % kinds == 1 else [x.name, x.octave]
                   for i, x in enumerate(arg)]
        return t.add_notes(arg) if a.get("dflt") else t.add_notes(arg, build(a["v"]))
    if op == "plus":
        arg = content(a["arg"], "nc")
        return t + arg
    if op == "add_bar":
        t.add_bar(given_bar(a))
        return None
    if op == "from_chords":
        t.from_chords(nest(a["items"]), build(a["v"]))
        return None
    raise Shape("unknown action " + op)


def retcode(r):
    return 1 if r is True else 0 if r is False else 2


def track_query(t, twin, acts):
    other = Track(KINDS[kind_of(t.instrument)]())
    for k, a in enumerate(acts):
        try:
            apply_track(other, a, k)
        except Exception:
            pass
    if len(acts) % 3 == 2 and other.bars and other.bars[-1].bar and not other.bars[-1].is_full():
        # a track that differs from t only in the VALUE of its last entry (same beats, same notes before it)
        last = other.bars[-1].bar[-1]
        other.bars[-1].remove_last_entry()
        other.bars[-1].place_notes(last[2], last[1] * 2)
    elif len(acts) % 2 == 1:
        # a track that differs from t only by one more, empty, bar
        from mingus.containers import Bar as _Bar
        other.add_bar(_Bar())
    else:
        other.add_notes(NoteContainer([Note("A", 4)]), 8)
    it = []
    for beat, dur, notes in t.get_notes():
        from .values import beat_ticks, value_ticks
        from .c13 import nc_proj
        c = nc_proj(notes)
        it.append({"at": beat_ticks(beat)[0], "t": value_ticks(dur)[0],
                   "c": {"rest": c["rest"], "notes": c["notes"]}})
    return {"len": integer(len(t)), "iter": it,
            "index": [i + 1 for i in range(len(t.bars)) if t[i] is t.bars[i]],
            "eq_twin": boolean(t == twin), "eq_other": boolean(t == other), "other": track_proj(other),
            "integrity": boolean(t.test_integrity())}


def run_case(c):
    R = []
    if c["kind"] == "track":
        t = Track(KINDS[c["instr"]]())
        twin = Track(KINDS[c["instr"]]())
        rec = call("track_new", {"instr": c["instr"]}, lambda: None, lambda _: 0)
        observe(rec, lambda: state([t], []), {})
        rec["ret"] = 2
        R.append(rec)
        done = []
        for k, a in enumerate(c["acts"]):
            inp = {kk: vv for kk, vv in a.items() if kk != "op"}
            box = {}
            def f():
                box["r"] = apply_track(t, a, k)
            rec = call(a["op"], inp, f, lambda _: 0)
            rec["ret"] = retcode(box.get("r"))
            observe(rec, lambda: state([t], []), R[-1]["obs"])
            R.append(rec)
            try:
                apply_track(twin, a, k)
            except Exception:
                pass
            done.append(a)
            if c.get("queries") and (k % c["queries"] == 0 or k == len(c["acts"]) - 1):
                q = call("track_query", {}, lambda: track_query(t, twin, done))
                q["obs"] = {}
                q["ret"] = 2
                R.append(q)
    else:
        comp = Composition()
        twin = Composition()
        rec = call("comp_new", {}, lambda: None, lambda _: 0)
        observe(rec, lambda: state(comp.tracks, comp.selected_tracks), {})
        rec["ret"] = 2
        R.append(rec)
        def ap(cc, a):
            op = a["op"]
            if op == "comp_add_track":
                cc.add_track(Track(KINDS[a["instr"]]()))
            elif op == "comp_plus_track":
                cc + Track()
            elif op == "comp_select":
                cc.selected_tracks = list(a["sel"])
            elif op == "comp_add_note":
                cc.add_note(content(a["arg"], "nc"))
            elif op == "comp_plus_note":
                cc + content(a["arg"], "nc")
            elif op == "comp_direct":
                cc.tracks[a["track"] - 1].add_notes(content(a["arg"], "nc"), 8)
        for a in c["acts"]:
            inp = {kk: vv for kk, vv in a.items() if kk != "op"}
            rec = call(a["op"], inp, lambda: ap(comp, a), lambda _: 0)
            observe(rec, lambda: state(comp.tracks, comp.selected_tracks), R[-1]["obs"])
            rec["ret"] = 2
            R.append(rec)
            try:
                ap(twin, a)
            except Exception:
                pass
        def cq():
            other = Composition()
            for a in c["acts"]:
                try:
                    ap(other, a)
                except Exception:
                    pass
            if other.tracks:
                other.tracks[-1].add_notes(NoteContainer([Note("B", 3)]), 8)
            else:
                other.add_track(Track())
            return {"len": integer(len(comp)), "index": [i + 1 for i in range(len(comp.tracks)) if comp[i] is comp.tracks[i]],
                    "eq_twin": boolean(comp == twin), "eq_other": boolean(comp == other), "other": state(other.tracks, [])}
        q = call("comp_query", {}, cq)
        q["obs"] = {}
        q["ret"] = 2
        R.append(q)
    return R
