"""C09 driver: note values and meters."""
from fractions import Fraction
from mingus.core import value, meter
from .common import call, Shape, boolean

L = 215040


def build(v):
    """Build the float note value with the library's own constructors from the descriptor."""
    base = value.base_values[v["b"]]
    r = tuple(v["r"])
    if v["d"] > 0:
        return value.dots(base, v["d"])
    if r == (3, 2):
        return value.triplet(base)
    if r == (5, 4):
        return value.quintuplet(base)
    if r == (7, 4):
        return value.septuplet(base)
    return base


def ticks(x):
    """float note value -> (rounded ticks, residue in 1e-9 tick); pure unit conversion."""
    if isinstance(x, bool) or not isinstance(x, (int, float)):
        raise Shape("number expected")
    t = L / x
    ti = int(round(t))
    if abs(ti) >= 2 ** 31:
        raise Shape("out of range")
    return {"t": ti, "res9": max(-2 ** 30, min(2 ** 30, int(round((t - ti) * 1e9))))}


def descr(t):
    if not isinstance(t, tuple) or len(t) != 4:
        raise Shape("4-tuple expected")
    b = None
    for i, bv in enumerate(value.base_values if False else [0.25, 0.5, 1, 2, 4, 8, 16, 32, 64, 128]):
        if t[0] == bv:
            b = i
    if b is None:
        raise Shape("base value expected, got %r" % (t[0],))
    for x in t[1:]:
        if isinstance(x, bool) or not isinstance(x, int):
            raise Shape("int expected")
    return {"b": b, "d": t[1], "r": [t[2], t[3]]}


def unit(c):
    n, d = c["u"]
    if c["f"] and d == 0:
        return float("inf") if n > 0 else float("-inf") if n < 0 else float("nan")
    return (n / d) if c["f"] else n


def run_case(c):
    R = []
    k = c["kind"]
    if k == "value":
        v = c["v"]
        # the value asked after its closest neighbours (differing in the 7th..9th digit) have been analysed, before it is asked on its own
        def after_neighbours():
            x = build(v)
            for eps in (1e-9, -1e-9, 1e-7, -1e-7, 3e-7):
                try:
                    value.determine(x * (1 + eps))
                except Exception:
                    pass
            return value.determine(x)
        R.append(call("determine", {"v": v, "p": 0, "asked": "after its neighbours"}, after_neighbours, descr))
        R.append(call("determine", {"v": v, "p": 0}, lambda: value.determine(build(v)), descr))
        R.append(call("length", {"v": v}, lambda: build(v), ticks))
        if tuple(v["r"]) != (1, 1):
            base = value.base_values[v["b"]]
            R.append(call("tuplet_formula", {"v": v}, lambda: {"helper": ticks(build(v)), "general": ticks(value.tuplet(base, v["r"][0], v["r"][1]))}))
    elif k == "near":
        v, p = c["v"], c["p"]
        R.append(call("determine", {"v": v, "p": p}, lambda: value.determine(build(v) * (1000 + p) / 1000.0), descr))
    elif k == "pair":
        a, b = c["a"], c["b"]
        i = {"a": a, "b": b}
        R.append(call("add", i, lambda: value.add(build(a), build(b)), ticks))
        R.append(call("subtract", i, lambda: value.subtract(build(a), build(b)), ticks))
        R.append(call("add_subtract", i, lambda: value.subtract(value.add(build(a), build(b)), build(b)), ticks))
    elif k == "unit":
        u = unit(c)
        R.append(call("valid_beat_duration", {"u": c["u"], "f": c["f"]}, lambda: meter.valid_beat_duration(u), boolean, timeout=1))
    elif k == "bigunit":
        u = 2 ** c["k"] + c["d"]
        if c["f"]:
            u = float(u)
        i = {"k": c["k"], "d": c["d"], "f": c["f"]}
        R.append(call("valid_beat_duration_big", i, lambda: meter.valid_beat_duration(u), boolean, timeout=1))
        for cnt in (4, 0):
            R.append(call("is_valid_big", dict(i, c=cnt), lambda: meter.is_valid((cnt, u)), boolean, timeout=1))
    elif k == "meter":
        u = unit(c)
        i = {"c": c["c"], "u": c["u"], "f": c["f"]}
        for op in ("is_valid", "is_compound", "is_asymmetrical", "is_simple"):
            f = getattr(meter, op)
            R.append(call(op, i, lambda: f((c["c"], u)), boolean, timeout=1))
    return R
