"""X05 driver (extension): the real frequency lookup on sequences of table-relative frequencies."""
from .common import call, integer, Shape

OFFS = {-2: -1.0, -1: -0.001, 0: 0.0, 1: 0.001, 2: 1.0}


def run_case(c):
    from mingus.extra import fft
    T = list(fft._log_cache)
    fft._last_asked = None
    R = []
    scaled = [int(round(x * 1000)) for x in T]
    for k, (slot, off) in enumerate(c["seq"]):
        if slot < 0:
            f, fs = (0.0, 0) if off == 0 else (-5.0 * abs(off), -5000 * abs(off))
        else:
            f, fs = T[slot] + OFFS[off], scaled[slot] + int(OFFS[off] * 1000)
        r = call("lookup", {"slot": slot, "off": off, "f": fs}, lambda: fft._find_log_index(f), integer)
        mem = fft._last_asked
        r["mem"] = [-1, 0] if mem is None else [integer(mem[0]), int(round(mem[1] * 1000))]
        r["first"] = k == 0
        r["table"] = scaled if k == 0 else []
        if not r["ok"]:
            r["out"] = -2
        R.append(r)
    return R
