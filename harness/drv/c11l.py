"""C11 driver (lifting): transpose / augment / diminish at container, bar and track level."""
from mingus.containers import Track
from .common import observe, call, txt, Shape
from .c14 import KINDS, apply_track, track_proj


def run_case(c):
    R = []
    t = Track(KINDS[c["instr"]]())
    def build():
        for k, a in enumerate(c["acts"]):
            try:
                apply_track(t, a, k)
            except Exception:
                pass
        # the same chord stamped into the track again as copies (NoteContainer built from another container, and '+')
        from mingus.containers import NoteContainer
        src = [e[2] for b in t.bars for e in b.bar if e[2] is not None and len(e[2]) > 0][:2]
        # one list of names handed to the track twice (the caller's list stays the caller's; each entry is its own chord)
        try:
            same = ["D-4", "F-4", "A-4"]
            t.add_notes(same, 4)
            t.add_notes(same, 4)
        except Exception:
            pass
        # a chord that doubles names at the octave (what holds for a name holds for each of its notes)
        try:
            t.add_notes(NoteContainer(["A-2", "A-3", "A-4", "B-3", "B-4", "C-3", "C-5"]), 4)
        except Exception:
            pass
        # a chord holding one pitch class under two spellings in different octaves (each note is altered as the note it is)
        try:
            t.add_notes(NoteContainer(["C#-3", "Db-5", "B#-3", "C-5", "E#-2", "F-4"]), 4)
        except Exception:
            pass
        for k, nc in enumerate(src):
            try:
                t.add_notes(NoteContainer(nc), 4)
                t.add_notes(NoteContainer() + nc, 8)
            except Exception:
                pass
    rec = call("build", {"instr": c["instr"], "n": len(c["acts"])}, build, lambda _: 0)
    observe(rec, lambda: track_proj(t), {"bars": []})
    R.append(rec)
    for s in c["steps"]:
        nb = len(t.bars)
        bi = (s["pos"] % nb) + 1 if nb else 0
        ne = len(t.bars[bi - 1]) if nb else 0
        sounding = [i for i in range(ne) if t.bars[bi - 1][i][2] is not None]
        ei = (sounding[s["pos"] % len(sounding)] + 1) if sounding else 0
        scope = {"bar": bi, "entry": ei}
        level = s["level"]
        if (level == "bar" and not nb) or (level == "container" and not ei):
            level = "track"
        def f():
            tgt = t if level == "track" else t.bars[bi - 1] if level == "bar" else t.bars[bi - 1][ei - 1][2]
            if s["op"] == "transpose":
                tgt.transpose(txt(s["sh"]), s["up"])
            elif s["op"] == "augment":
                tgt.augment()
            else:
                tgt.diminish()
        rec = call("lift", {"op": s["op"], "level": level, "sh": s["sh"], "up": s["up"], "scope": scope}, f, lambda _: 0)
        observe(rec, lambda: track_proj(t), R[-1]["obs"])
        R.append(rec)
    def ad():
        t.augment()
        t.diminish()
    rec = call("augdim", {}, ad, lambda _: 0)
    observe(rec, lambda: track_proj(t), R[-1]["obs"])
    R.append(rec)
    return R
