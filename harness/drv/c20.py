"""C20 driver: tunings, fingerings, tablature (the ASCII text is only lexed into digit runs with their columns)."""
import os, re
from mingus.extra import tunings, tablature
from mingus.containers import Note, NoteContainer
from .common import again, AGAIN, call, nm, txt, integer, Shape
from .program import mk_composition, built_ok, mk_container, mk_note


def all_tunings():
    out = []
    for key in sorted(tunings._known):
        instr, d = tunings._known[key]
        for dk in sorted(d):
            out.append(d[dk])
    return out


def first(x):
    return x[0] if isinstance(x, list) else x


def tproj(t):
    return {"instr": list(t.instrument.upper()), "descr": list(t.description.upper()),
            "open": [integer(int(first(s))) for s in t.tuning], "strings": integer(t.count_strings()),
            "courses_total": integer(sum(len(s) if isinstance(s, list) else 1 for s in t.tuning))}


def opt(x):
    return -1 if x is None else integer(x)


def lex_tab(text, nstrings):
    if not isinstance(text, str):
        raise Shape("text expected")
    blocks, cur = [], None
    for line in text.split(os.linesep):
        is_marker = "*" in line
        m = re.search(r"\|\|", line)
        is_string = (not is_marker) and m is not None and re.search(r"[-0-9]", line[m.end():]) is not None
        if is_marker:
            if cur is not None:
                blocks.append(cur)
            cur = {"lines": [line], "strings": []}
        elif is_string:
            if cur is None:
                cur = {"lines": [], "strings": []}
            cur["lines"].append(line)
            cur["strings"].append(line)
        else:
            if cur is not None:
                blocks.append(cur)
                cur = None
    if cur is not None:
        blocks.append(cur)
    out = []
    for b in blocks:
        toks = []
        k = len(b["strings"])
        for j, line in enumerate(b["strings"]):
            start = line.find("||") + 2
            for m in re.finditer(r"\d+", line[start:]):
                toks.append({"s": k - 1 - j, "a": start + m.start(), "b": start + m.end() - 1, "f": int(m.group())})
        out.append({"nlines": len(b["lines"]), "lens": [len(x) for x in b["lines"]], "tokens": toks})
    return {"blocks": out}


def open_strings_again(R, t, tp, why):
    """the open strings asked again, judged against the tuning as it was projected before (a tuning is not retuned by use)"""
    for s_ in range(tp["strings"]):
        r = call("get_Note", {"s": s_, "f": 0, "maxfret": 24, "asked": why}, lambda: integer(int(t.get_Note(s_, 0, 24))))
        r["tuning"] = tp
        R.append(r)


def run_case(c):
    R = []
    k = c["kind"]
    T = all_tunings()
    if k == "frets":
        t = T[c["ti"] % len(T)]
        tp = tproj(t)
        for p in range(c["lo"], c["hi"]):
            for mf in (0, 1, 12, 24, 12):      # 0: open strings only
                r = call("find_frets", {"p": p, "maxfret": mf}, lambda: [opt(x) for x in t.find_frets(Note().from_int(p), mf)])
                r["tuning"] = tp
                R.append(r)
            r = call("find_frets", {"p": p, "maxfret": 24, "asked": AGAIN}, again(lambda: t.find_frets(Note().from_int(p), 24)), lambda xs: [opt(x) for x in xs])
            r["tuning"] = tp
            R.append(r)
            # the same pitch given as text, spelled across the octave line (B# / B## belong to the octave below, Cb / Cbb above)
            o, pc = divmod(p, 12)
            spell = {0: ("B#", o - 1), 1: ("B##", o - 1), 11: ("Cb", o + 1), 10: ("Cbb", o + 1)}.get(pc)
            if spell is not None and 0 <= spell[1] <= 9:
                text = "%s-%d" % spell
                r = call("find_frets", {"p": p, "maxfret": 24, "as": text}, lambda: [opt(x) for x in t.find_frets(text, 24)])
                r["tuning"] = tp
                R.append(r)
        for s in range(-1, tp["strings"] + 1):
            for f in (-1, 0, 1, 11, 12, 13, 24, 25):
                for mf in (0, 12, 24, 12):      # the narrower limit again after the wider one has been answered
                    r = call("get_Note", {"s": s, "f": f, "maxfret": mf}, lambda: integer(int(t.get_Note(s, f, mf))))
                    r["tuning"] = tp
                    R.append(r)
        # the caller changes the notes it was handed (they are the caller's), singly and as the container of a fingering
        def edit():
            for s_ in range(tp["strings"]):
                for f_ in (0, 3):
                    n = t.get_Note(s_, f_, 24)
                    n.octave_up(); n.augment()
            nc = t.frets_to_NoteContainer([0] * tp["strings"])
            nc.transpose("3")
            for n in nc:
                n.octave_down()
        try:
            edit()
        except Exception:
            pass
        open_strings_again(R, t, tp, "again after the caller changed the notes it was handed")
    elif k == "lookup":
        for instr, descr, ns, ncs in c["queries"]:
            def f():
                res = tunings.get_tunings(instr if instr != "" else None, ns, ncs) if descr == "" else None
                if res is None:
                    one = tunings.get_tuning(instr, descr, ns, ncs)
                    res = [] if one is None else [one]
                return [tproj(x) for x in res]
            R.append(call("get_tunings", {"instr": list(instr.upper()), "descr": list(descr.upper()), "strings": opt(ns), "courses": opt(ncs)}, f))
    elif k == "fingering":
        t = T[c["ti"] % len(T)]
        tp = tproj(t)
        notes = c["notes"]
        md = c["maxdist"]
        # the same notes with a narrower span first, then the asked one, then a wider one (each question has its own answer)
        for md2, why in ((2, "narrower first"), (md, ""), (md + 3, "wider afterwards")):
            r = call("find_fingering", dict({"notes": notes, "maxdist": md2}, **({"asked": why} if why else {})),
                     lambda: [[[integer(s), integer(f)] for (s, f) in fg] for fg in t.find_fingering([Note().from_int(p) for p in notes], md2)])
            r["tuning"] = tp
            R.append(r)
    elif k == "chord":
        t = tunings.get_tuning(*c["named"]) if "named" in c else T[c["ti"] % len(T)]
        tp = tproj(t)
        name = c["chord"]
        def f():
            nc = NoteContainer().from_chord(name)
            res = t.find_chord_fingering(nc, c["maxdist"], 18, c["maxfingers"])
            return {"names": [nm(x.name) for x in nc], "fgs": [[opt(x) for x in fg] for fg in res[:400]]}
        r = call("find_chord_fingering", {"chord": name, "maxdist": c["maxdist"], "maxfingers": c["maxfingers"]}, f)
        r["tuning"] = tp
        r["names"] = r["out"]["names"] if r["ok"] else []
        r["out"] = r["out"]["fgs"] if r["ok"] else []
        R.append(r)
        def g():
            nc = NoteContainer().from_chord(name)
            best = t.find_chord_fingering(nc, c["maxdist"], 18, c["maxfingers"], return_best_as_NoteContainer=True)
            if isinstance(best, list) and not best:      # no fingering exists (five chord tones on four strings): nothing is returned
                return {"names": [nm(x.name) for x in nc], "fgs": []}
            fg = [-1] * tp["strings"]
            for n in best:
                fg[integer(n.string)] = integer(n.fret)
            return {"names": [nm(x.name) for x in nc], "fgs": [fg]}
        r = call("find_chord_fingering", {"chord": name, "maxdist": c["maxdist"], "maxfingers": c["maxfingers"], "form": "best_as_NoteContainer"}, g)
        r["tuning"] = tp
        r["names"] = r["out"]["names"] if r["ok"] else []
        r["out"] = r["out"]["fgs"] if r["ok"] else []
        R.append(r)
        open_strings_again(R, t, tp, "again after a chord fingering was handed out as a container")
    elif k == "prog":
        p = c["prog"]
        try:
            comp = mk_composition(p)
            good = built_ok(p, comp)
        except Exception:
            good = False
        if not good:
            return [{"op": "build", "in": {}, "ok": False, "out": 0, "err": "construction"}]
        tun = tablature.default_tuning
        tp = tproj(tun)
        w = p["width"]
        def rec(op, prog, fn):
            r = call(op, {"track": 1, "width": w}, lambda: lex_tab(fn(), tp["strings"]))
            r["prog"], r["tuning"] = prog, tp
            r["tab"] = r["out"] if r["ok"] else {"blocks": []}
            r["out"] = 0
            R.append(r)
        t0 = p["tracks"][0]
        # the same music on a bass guitar whose tuning is supplied in the three possible ways
        if c.get("bass"):
            from mingus.containers.instrument import Instrument
            bass = tunings.get_tuning("Bass guitar", "Standard 4-string")
            for way in ("track", "instrument", "set_tuning", "track, with an instrument that has no tuning of its own"):
                comp2 = mk_composition(p)
                tr = comp2.tracks[0]
                if way == "track":
                    tr.tuning = bass
                elif way.startswith("track, with"):
                    from mingus.containers.instrument import Piano
                    tr.tuning = bass
                    tr.instrument = Piano()
                elif way == "instrument":
                    tr.instrument = Instrument()
                    tr.instrument.tuning = bass
                else:
                    tr.instrument = Instrument()
                    tr.set_tuning(bass)
                btp = tproj(bass)
                r = call("tab_Composition", {"track": 1, "width": w, "tuning_via": way}, lambda: lex_tab(tablature.from_Composition(comp2, w + 20), btp["strings"]))
                r["prog"], r["tuning"] = p, btp
                r["tab"] = r["out"] if r["ok"] else {"blocks": []}
                r["out"] = 0
                R.append(r)
                r = call("tab_Track", {"track": 1, "width": w, "tuning_via": way}, lambda: lex_tab(tablature.from_Track(comp2.tracks[0], w + 20), btp["strings"]))
                r["prog"], r["tuning"] = p, btp
                r["tab"] = r["out"] if r["ok"] else {"blocks": []}
                r["out"] = 0
                R.append(r)
                if way in ("track", "set_tuning"):
                    # a tuning named in the call is the tuning of that tab, whatever tuning the track carries (positional and by keyword)
                    for form, fn in (("argument", lambda: tablature.from_Track(comp2.tracks[0], w + 20, tun)),
                                     ("keyword", lambda: tablature.from_Track(comp2.tracks[0], maxwidth=w + 20, tuning=tun))):
                        r = call("tab_Track", {"track": 1, "width": w, "tuning_via": way, "tuning_named_in_the_call": form}, lambda: lex_tab(fn(), tp["strings"]))
                        r["prog"], r["tuning"] = p, tp
                        r["tab"] = r["out"] if r["ok"] else {"blocks": []}
                        r["out"] = 0
                        R.append(r)
            # one and the same composition tabbed for the six strings of the guitar first and for the four of the bass afterwards
            comp4 = mk_composition(p)
            try:
                tablature.from_Track(comp4.tracks[0], w + 20, tun)
            except Exception:
                pass
            r = call("tab_Track", {"track": 1, "width": w, "tuning_via": "none", "tuning_named_in_the_call": "argument", "tabbed_before_for": "the guitar"},
                     lambda: lex_tab(tablature.from_Track(comp4.tracks[0], w + 20, bass), tproj(bass)["strings"]))
            r["prog"], r["tuning"] = p, tproj(bass)
            r["tab"] = r["out"] if r["ok"] else {"blocks": []}
            r["out"] = 0
            R.append(r)
            # and the other way round: a track without a tuning of its own, the bass tuning named in the call
            r = call("tab_Track", {"track": 1, "width": w, "tuning_via": "none", "tuning_named_in_the_call": "argument"},
                     lambda: lex_tab(tablature.from_Track(comp.tracks[0], w + 20, bass), tproj(bass)["strings"]))
            r["prog"], r["tuning"] = p, tproj(bass)
            r["tab"] = r["out"] if r["ok"] else {"blocks": []}
            r["out"] = 0
            R.append(r)
        # the same music with every note carrying the string / fret position a tuning hands out with its notes
        # (the lowest string that can sound it: notes of one chord often meet on one string)
        if c.get("bass") or len(p["tracks"][0]["bars"]) <= 2:
            comp3 = mk_composition(p)
            for b3 in comp3.tracks[0].bars:
                for e3 in b3.bar:
                    for nt in (e3[2] or []):
                        fr = tun.find_frets(nt)
                        ss = [i for i, x in enumerate(fr) if x is not None]
                        if ss:
                            nt.string, nt.fret = ss[0], fr[ss[0]]
            for bi, b in enumerate(t0["bars"][:2]):
                r = call("tab_Bar", {"track": 1, "width": w, "positioned": True}, lambda: lex_tab(tablature.from_Bar(comp3.tracks[0].bars[bi], w), tp["strings"]))
                r["prog"], r["tuning"] = dict(p, tracks=[dict(t0, bars=[b])]), tp
                r["tab"] = r["out"] if r["ok"] else {"blocks": []}
                r["out"] = 0
                R.append(r)
        rec("tab_Composition", p, lambda: tablature.from_Composition(comp, w + 20))
        rec("tab_Track", p, lambda: tablature.from_Track(comp.tracks[0], w + 20))
        for bi, b in enumerate(t0["bars"][:3]):
            rec("tab_Bar", dict(p, tracks=[dict(t0, bars=[b])]), lambda: tablature.from_Bar(comp.tracks[0].bars[bi], w))
            for e in b["entries"][:2]:
                if not e["rest"]:
                    one = dict(p, tracks=[dict(t0, bars=[dict(b, entries=[e])])])
                    rec("tab_NoteContainer", one, lambda: tablature.from_NoteContainer(mk_container(e), w))
                    if len(e["notes"]) == 1:
                        rec("tab_Note", one, lambda: tablature.from_Note(mk_note(e["notes"][0]), w))
    return R
