"""C06 driver: chord shorthand construction."""
from mingus.core import chords
from .common import again, AGAIN, call, nm, txt, names, Shape, listof

# documented meanings -> builder function name (derived textually from the meaning)
def builder_name(meaning):
    return meaning.replace("/", "_").replace(" ", "_")


def run_case(c):
    R = []
    k = c["kind"]
    if k == "chord":
        root, sh, sp = txt(c["root"]), c["sh"], c["spelled"]
        i = {"root": list(root), "sh": sh, "spelled": sp}
        R.append(call("from_shorthand", i, lambda: chords.from_shorthand(root + sp), names))
        if sp == sh:
            R.append(call("from_shorthand", dict(i, asked=AGAIN), again(lambda: chords.from_shorthand(root + sp)), names))
        if sp == sh:
            R.append(call("list", {"items": [{"root": list(root), "sh": sh}, {"root": list(root), "sh": "m7"}]},
                          lambda: chords.from_shorthand([root + sh, root + "m7"]), listof(names)))
            if sh in ("", "m7", "9"):
                R.append(call("list_nc", {"items": [{"root": list(root), "sh": sh}, {"root": list(root), "sh": "m7"}]},
                              lambda: chords.from_shorthand([root + sh, "NC", root + "m7", "N.C."]), listof(names)))
                # the caller writes into the first silent bar of the answer: the other silent bar is another list
                def edited_nc():
                    r = chords.from_shorthand([root + sh, "NC", root + "m7", "N.C."])
                    r[1].append("G")
                    return [r[0], [], r[2], r[3]]
                R.append(call("list_nc", {"items": [{"root": list(root), "sh": sh}, {"root": list(root), "sh": "m7"}], "asked": "the caller wrote into the first silent chord"},
                              edited_nc, listof(names)))
            fn = chords.chord_shorthand.get(sh)
            if fn is not None:
                R.append(call("builder", {"root": list(root), "sh": sh, "fn": getattr(fn, "__name__", "?")},
                              lambda: {"b": fn(root), "s": chords.from_shorthand(root + sh)},
                              lambda o: {"b": names(o["b"]), "s": names(o["s"])}))
    elif k == "named":
        root, meaning = txt(c["root"]), c["meaning"]
        fn = getattr(chords, builder_name(meaning), None)
        if fn is not None:
            R.append(call("named_builder", {"root": list(root), "meaning": meaning, "fn": builder_name(meaning)}, lambda: fn(root), names))
    elif k == "slash":
        root, sh, bass = txt(c["root"]), c["sh"], txt(c["bass"])
        R.append(call("slash", {"root": list(root), "sh": sh, "bass": list(bass)},
                      lambda: chords.from_shorthand(root + sh + "/" + bass), names))
    elif k == "poly":
        x, y = txt(c["x"]["root"]) + c["x"]["sh"], txt(c["y"]["root"]) + c["y"]["sh"]
        R.append(call("poly", {"x": c["x"], "y": c["y"]},
                      lambda: {"x": chords.from_shorthand(x), "y": chords.from_shorthand(y), "xy": chords.from_shorthand(x + "|" + y),
                               "xyx": chords.from_shorthand(x + "|" + y + "|" + x)},
                      lambda o: {"x": names(o["x"]), "y": names(o["y"]), "xy": names(o["xy"]), "xyx": names(o["xyx"])}, timeout=2))
    elif k == "malformed":
        s = txt(c["root"]) + c["suffix"]
        R.append(call("malformed", {"s": list(s)}, lambda: chords.from_shorthand(s), names))
    elif k == "badroot":
        s = txt(c["s"])
        R.append(call("badroot", {"s": list(s)}, lambda: chords.from_shorthand(s), names))
    elif k == "nc":
        R.append(call("nc", {"s": c["text"]}, lambda: chords.from_shorthand(c["text"]), names))
        R.append(call("nc", {"s": c["text"], "asked": AGAIN}, again(lambda: chords.from_shorthand(c["text"])), names))
    elif k == "tables":
        R.append(call("tables", {}, lambda: {"constructible": sorted(chords.chord_shorthand), "meaning": sorted(chords.chord_shorthand_meaning)}))
    elif k == "samemeaning":
        root = txt(c["root"])
        def f():
            out = []
            for sh, m in sorted(chords.chord_shorthand_meaning.items()):
                try:
                    ch = chords.from_shorthand(root + sh)
                    out.append({"sh": sh, "meaning": m, "built": True, "chord": names(ch)})
                except Exception:
                    out.append({"sh": sh, "meaning": m, "built": False, "chord": []})
            return out
        R.append(call("samemeaning", {"root": list(root)}, f))
    return R
