"""Warm-up for the second order pass: the rest of the library is USED before the cases of a check are executed
(exporters, MIDI writer and reader, sequencer, tablature, theory tables, fft lookup).  Nothing here is observed or judged;
it only makes sure that what a check asks afterwards is asked of an interpreter in which the other modules have run."""
import os, tempfile


def run():
    steps = []

    def step(f):
        try:
            f()
            steps.append(True)
        except BaseException:
            steps.append(False)

    from mingus.containers import Note, NoteContainer, Bar, Track, Composition
    from mingus.containers.instrument import MidiInstrument, Piano, Guitar
    from mingus.core import notes, keys, intervals, scales, chords, progressions, value, meter

    def music():
        t = Track(MidiInstrument())
        b = Bar("Eb", (6, 8))
        b.place_notes(["C", "E", "G"], value.triplet(8))
        b.place_notes("A#-3", value.dots(8))
        b.place_rest(8)
        b.place_notes(NoteContainer(["B#-2", "Cb-5"]), 16)
        t.add_bar(b)
        t.add_notes("D", 4)
        t.add_notes(None, value.quintuplet(4))
        c = Composition()
        c.set_title("warm-up", "x")
        c.add_track(t)
        c.add_track(Track())
        c.tracks[1].add_notes(["F", "A"], 2)
        return c, t, b

    def exporters():
        from mingus.extra import lilypond, musicxml, tablature
        c, t, b = music()
        lilypond.from_Composition(c)
        lilypond.from_Bar(b)
        musicxml.from_Bar(b)
        musicxml.from_Composition(c)
        tablature.from_Track(c.tracks[1])
        tablature.from_NoteContainer(NoteContainer(["E-3", "B-3"]))
    step(exporters)

    def midi():
        from mingus.midi import midi_file_out, midi_file_in
        c, t, b = music()
        fd, path = tempfile.mkstemp(suffix=".mid", dir=os.environ.get("VERIF_WORK") or None)
        os.close(fd)
        try:
            midi_file_out.write_Composition(path, c, 96)
            midi_file_in.MIDI_to_Composition(path)
            midi_file_out.write_Bar(path, b, 150, 1)
        finally:
            os.remove(path)
    step(midi)

    def playback():
        from mingus.midi.sequencer import Sequencer
        class Quiet(Sequencer):
            def sleep(self, seconds):
                pass
        c, t, b = music()
        s = Quiet()
        s.play_Composition(c)
        s.play_Bar(b, 3, 80)
        s.control_change(1, 7, 99)
    step(playback)

    def theory():
        for k in ("C", "f#", "Cb", "a", "Eb"):
            keys.get_notes(k); keys.get_key_signature(k); keys.get_key_signature_accidentals(k)
            chords.sevenths(k); chords.triads(k)
        chords.determine(["G", "B", "D", "F"], True); chords.determine(["C", "E", "G", "B", "D"])
        chords.from_shorthand("G7b5"); chords.from_shorthand("Am7|G7"); chords.from_shorthand("C/E")
        progressions.to_chords(["I", "bVII7", "ii"], "G"); progressions.determine(["D", "F#", "A"], "G", True)
        progressions.substitute(["I", "IV", "V"], 2, 1)
        scales.determine(["A", "B", "C#", "D"]); scales.MelodicMinor("A").descending(); scales.Chromatic("c").ascending()
        intervals.determine("C", "G#", True); intervals.from_shorthand("Bb", "b7", False); intervals.measure("B#", "Cb")
        notes.reduce_accidentals("Cbb"); notes.int_to_note(6, "b"); notes.note_to_int("B##")
        for v in (1, 3, 12, 192, 224, 160, value.dots(4, 2), 0.25, 11.9):
            value.determine(v)
        meter.is_compound((9, 8)); meter.valid_beat_duration(64)
        Note("B#", 3).to_hertz(432); Note().from_hertz(452.0); Note("Cb", 4).to_shorthand(); int(Note("Cbb", 0))
    step(theory)

    def extras():
        from mingus.extra import tunings, fft
        g = tunings.get_tuning("Guitar", "Standard")
        g.find_frets("F-2", 12); g.get_Note(2, 15); g.find_fingering(["E-3", "B-3"]); g.find_chord_fingering(["C", "E", "G"])
        tunings.get_tunings("Bass", 4)
        fft._find_log_index(440.0); fft._find_log_index(25500.0); fft._find_log_index(26000.0)
    step(extras)
    return steps
