"""C17 driver: MIDI write -> read round trip."""
import io, os, tempfile
from mingus.midi import midi_file_out, midi_file_in
from mingus.midi.midi_track import MidiTrack
from mingus.containers import Note, NoteContainer, Bar, Track, Composition
from .common import call, nm, integer, Shape
from .program import mk_composition, built_ok
from .values import value_ticks


def tmpdir():
    w = os.environ.get("VERIF_WORK", "")
    return tempfile.mkdtemp(prefix="c17_", dir=w if os.path.isdir(w) else None)


def read_proj(comp, bpm):
    tracks = []
    for t in comp.tracks:
        bars = []
        for b in t.bars:
            ents = []
            for e in b.bar:
                v = e[1]
                mt = 288.0 / v
                if abs(mt - round(mt)) > 1e-6:
                    raise Shape("read-back value %r is not a whole number of MIDI ticks" % (v,))
                c = e[2]
                notes = [] if c is None else [{"n": nm(n.name), "o": integer(n.octave), "ch": integer(n.channel), "vel": integer(n.velocity)} for n in c.notes]
                ents.append({"mt": int(round(mt)), "notes": notes})
            bars.append({"meter": [integer(b.meter[0]), integer(b.meter[1])], "key": nm(b.key.key), "entries": ents})
        instr = getattr(t.instrument, "instrument_nr", -1) if t.instrument is not None else -1
        tracks.append({"name": list(t.name.encode("ascii")), "instr": integer(instr), "bars": bars})
    return {"tracks": tracks, "bpm": integer(bpm)}


def roundtrip(comp, bpm):
    d = tmpdir()
    path = os.path.join(d, "rt.mid")
    try:
        if midi_file_out.write_Composition(path, comp, bpm) is not True:
            raise Shape("writer did not report success")
        res = midi_file_in.MIDI_to_Composition(path)
        if not isinstance(res, tuple) or len(res) != 2:
            raise Shape("reader must return (composition, bpm)")
        return res
    finally:
        try:
            if os.path.exists(path):
                os.remove(path)
            os.rmdir(d)
        except OSError:
            pass


def simple_comp():
    c = Composition()
    t = Track()
    b = Bar("C", (4, 4))
    b.place_notes(NoteContainer([Note("C", 4)]), 4)
    t.add_bar(b)
    c.add_track(t)
    return c


def run_case(c):
    R = []
    k = c["kind"]
    if k == "prog":
        p = c["prog"]
        try:
            comp = mk_composition(p)
            good = built_ok(p, comp)
        except Exception:
            good = False
        if not good:
            return [{"op": "build", "in": {}, "ok": False, "out": 0, "err": "construction"}]
        r = call("roundtrip", {}, lambda: read_proj(*roundtrip(comp, p["bpm"])))
        r["prog"] = p
        r["read"] = r["out"] if r["ok"] else {"tracks": [], "bpm": 0}
        r["out"] = 0
        R.append(r)
        # the same program with its rests held as empty NoteContainers instead of None
        if any(e["rest"] for t in p["tracks"] for b in t["bars"] for e in b["entries"]):
            from . import program as _pg
            _pg.REST_AS_EMPTY_CONTAINER[0] = True
            try:
                comp2 = mk_composition(p)
            finally:
                _pg.REST_AS_EMPTY_CONTAINER[0] = False
            if built_ok(p, comp2):
                r = call("roundtrip", {"rests": "empty containers"}, lambda: read_proj(*roundtrip(comp2, p["bpm"])))
                r["prog"] = p
                r["read"] = r["out"] if r["ok"] else {"tracks": [], "bpm": 0}
                r["out"] = 0
                R.append(r)
    elif k == "ticks":
        # one 4/4 bar whose entries last any whole number of MIDI ticks: value = 288 / k
        from .program import mk_note
        def build_and_read():
            b = Bar("C", (4, 4))
            for e in c["entries"]:
                v = 288.0 / e["mt"]
                ok = b.place_notes(NoteContainer([mk_note(x) for x in e["notes"]]), v) if e["notes"] else b.place_rest(v)
                if not ok:
                    raise Shape("construction refused by the library (entry does not fit)")
            t = Track()
            t.add_bar(b)
            comp = Composition()
            comp.add_track(t)
            rd = read_proj(*roundtrip(comp, 120))
            if len(rd["tracks"]) != 1:
                raise Shape("one track written, %d read" % len(rd["tracks"]))
            return [e for bar in rd["tracks"][0]["bars"] for e in bar["entries"]]
        r = call("rt_ticks", {"entries": c["entries"]}, build_and_read)
        r["read"] = r["out"] if r["ok"] else []
        r["out"] = 0
        R.append(r)
    elif k == "bpm":
        for bpm in c["bpms"]:
            R.append(call("bpm", {"bpm": bpm}, lambda: roundtrip(simple_comp(), bpm)[1], integer))
    elif k == "vlq":
        mf = midi_file_in.MidiFile()
        for n in c["ns"]:
            def f():
                bs = MidiTrack().int_to_varbyte(n)
                v, used = mf.parse_varbyte_as_int(io.BytesIO(bs + b"\x55\x55"))
                return {"value": integer(v), "consumed": integer(used)}
            R.append(call("vlq_read", {"n": n}, f))
    elif k == "corrupt":
        d = tmpdir()
        path = os.path.join(d, "ok.mid")
        midi_file_out.write_Composition(path, simple_comp(), 120)
        data = open(path, "rb").read()
        os.remove(path)
        for pos, val in c["edits"]:
            vals = val if isinstance(val, list) else [val]          # one byte, or a whole four-byte tag written at pos
            if list(data[pos:pos + len(vals)]) == vals:
                continue
            def g():
                bad = bytearray(data)
                bad[pos:pos + len(vals)] = bytes(vals)
                p2 = os.path.join(d, "bad.mid")
                with open(p2, "wb") as fh:
                    fh.write(bytes(bad))
                try:
                    midi_file_in.MIDI_to_Composition(p2)
                    return 0
                finally:
                    os.remove(p2)
            R.append(call("corrupt", {"pos": pos, "val": vals, "orig": list(data[pos:pos + len(vals)])}, g, integer, timeout=5))
        os.rmdir(d)
    return R
