"""Helpers shared by the replay drivers: call recording and projections (no property logic)."""
import os
import signal


class Hang(BaseException):
    pass


class Shape(Exception):
    pass


def _on_alarm(signum, frame):
    raise Hang()


def install_alarm():
    signal.signal(signal.SIGALRM, _on_alarm)


def guarded(fn, seconds):
    signal.setitimer(signal.ITIMER_REAL, seconds)
    try:
        return fn()
    finally:
        signal.setitimer(signal.ITIMER_REAL, 0)


# ---- projections (shape checks): a value of the wrong shape is reported, never coerced ----
def nm(s):
    """text -> list of one-character strings"""
    if not isinstance(s, str):
        raise Shape("text expected, got %s" % type(s).__name__)
    return list(s)


class Text(str):
    """a caller's own kind of text (a subclass of str adding nothing): every name is still the same name"""
    __slots__ = ()


_SUBCLASSED = os.environ.get("VERIF_WARMUP") == "1"     # the second pass hands every name over as such an instance


def txt(chars):
    s = "".join(chars)
    return Text(s) if _SUBCLASSED else s


def integer(x):
    if isinstance(x, bool) or not isinstance(x, int):
        raise Shape("int expected, got %s" % type(x).__name__)
    if abs(x) >= 2 ** 31:
        raise Shape("int out of 32-bit range")
    return x


def boolean(x):
    if not isinstance(x, bool):
        raise Shape("bool expected, got %s" % type(x).__name__)
    return x


def names(xs):
    if not isinstance(xs, (list, tuple)):
        raise Shape("list expected, got %s" % type(xs).__name__)
    return [nm(x) for x in xs]


def listof(f):
    def g(xs):
        if not isinstance(xs, (list, tuple)):
            raise Shape("list expected, got %s" % type(xs).__name__)
        return [f(x) for x in xs]
    return g


def ident(x):
    return x


# the error classes the library defines (by name); an error of a class NOT in this list is reported as the nearest class of its
# ancestry that is (a new subclass of FormatError is a format error), or as the built-in it derives from
LIBRARY_ERRORS = {"Error", "FormatError", "NoteFormatError", "KeyError", "RangeError", "FingerError", "UnexpectedObjectError",
                  "MeterFormatError", "InstrumentRangeError", "HeaderError", "TimeDivisionError", "Win32MidiException"}


def err_name(e):
    for cls in type(e).__mro__:
        if cls.__module__ == "builtins" or cls.__name__ in LIBRARY_ERRORS:
            return cls.__name__
    return type(e).__name__


def call(op, inp, fn, shape=ident, timeout=None):
    """Execute fn(), record outcome. Exceptions are outcomes (class name), never propagated."""
    rec = {"op": op, "in": inp}
    try:
        if timeout:
            out = guarded(fn, timeout)
        else:
            out = fn()
        rec["out"] = shape(out)
        rec["ok"] = True
        rec["err"] = ""
    except Shape as e:
        rec.update(ok=False, out=0, err="shape:" + str(e))
    except Hang:
        if not timeout:
            raise
        rec.update(ok=False, out=0, err="hang")
    except RecursionError:
        rec.update(ok=False, out=0, err="RecursionError")
    except Exception as e:
        rec.update(ok=False, out=0, err=err_name(e))
    return rec


def observe(rec, fn, fallback):
    """Attach the projected state to a record.  A state that cannot be projected (an object of the wrong type inside a
    container, a missing attribute) is REPORTED - the step is marked as failed with a shape error - never coerced, and never
    allowed to stop the worker."""
    try:
        rec["obs"] = fn()
    except Hang:
        raise
    except Exception as e:
        rec["ok"] = False
        rec["err"] = "shape:state cannot be projected (%s: %s)" % (type(e).__name__, str(e)[:60])
        rec["obs"] = fallback
    return rec


# ---- the caller edits an answer it was handed, then asks again -----------------------------
def spoil(x):
    """edit, in place and to any depth, every list / dictionary of an answer (it belongs to the caller)"""
    if isinstance(x, list):
        for y in list(x):
            spoil(y)
        del x[:]
        x.append("spoiled")
    elif isinstance(x, dict):
        for y in list(x.values()):
            spoil(y)
        x.clear()
    elif isinstance(x, tuple):
        for y in x:
            spoil(y)


AGAIN = "again after the caller edited the first answer"


def again(fn):
    """fn asked twice, the first answer edited by the caller in between: the second answer is what is recorded"""
    def g():
        spoil(fn())
        return fn()
    return g
