"""X10 driver (extension): chord inversions."""
from mingus.core import chords
from .common import call, txt, names


def turn(ch):
    r = ch
    for _ in range(len(ch)):
        r = chords.invert(r)
    return r


def run_case(c):
    R = []
    if c["kind"] == "built":
        root, sh = txt(c["root"]), c["sh"]
        def inv(k):
            ch = chords.from_shorthand(root + sh)
            for _ in range(k):
                ch = chords.invert(ch)
            return ch
        for k in range(5):
            R.append(call("built", {"root": list(root), "sh": sh, "k": k}, lambda: inv(k), names))
        ch = [txt(x) for x in names(chords.from_shorthand(root + sh))]
    else:
        ch = [txt(x) for x in c["ch"]]
    arg = list(ch)
    R.append(call("inversions", {"ch": [list(x) for x in ch]},
                  lambda: {"invert": chords.invert(arg), "first": chords.first_inversion(arg), "second": chords.second_inversion(arg),
                           "third": chords.third_inversion(arg), "turn": turn(arg), "after": arg},
                  lambda o: {k: names(v) for k, v in o.items()}))
    return R
