"""setup / self-test: parse every specification module with SANY (offline)."""
import sys, os, glob, concurrent.futures as cf
from .tlcrun import sany, SPEC


def main():
    mods = sorted(os.path.basename(p)[:-4] for p in glob.glob(os.path.join(SPEC, "*.tla")))
    bad = 0
    with cf.ThreadPoolExecutor(max_workers=8) as ex:
        for m, (ok, out) in zip(mods, ex.map(sany, mods)):
            if not ok:
                bad += 1
                print("SANY FAILED:", m)
                print(out[-1500:])
    print("parsed %d specification modules, %d failures" % (len(mods), bad))
    return 1 if bad else 0


if __name__ == "__main__":
    sys.exit(main())
