"""Thin runner around TLC (tla2tools.jar). No property logic here."""
import os, re, shutil, subprocess, time, json

VERIF = os.path.dirname(os.path.dirname(os.path.abspath(__file__)))
SPEC = os.path.join(VERIF, "spec")
WORK = os.environ.get("VERIF_WORK", os.path.join(VERIF, ".work"))
JAR = "/opt/veriftools/tla/tla2tools.jar:/opt/veriftools/tla/CommunityModules-deps.jar"


class TlcError(Exception):
    pass


class TlcResult(dict):
    __getattr__ = dict.get


_RE_STATES = re.compile(r"(\d+) states generated, (\d+) distinct states found")
_RE_DEPTH = re.compile(r"The depth of the complete state graph search is (\d+)")
_RE_INV = re.compile(r"Invariant (\S+) is violated")
_RE_PROP = re.compile(r"(?:Action property|Temporal properties|property) (\S+)? ?(?:is|were) violated")


def workdir(name):
    d = os.path.join(WORK, name)
    shutil.rmtree(d, ignore_errors=True)
    os.makedirs(d, exist_ok=True)
    return d


def run_tlc(module, cfg=None, *, env=None, workers=1, tag=None, timeout=3600,
            xmx="3g", simulate=None, depth=None, seed=None, extra=(), deadlock=False,
            check=True, coverage=False):
    """Run TLC on spec/<module>.tla with spec/<cfg> (default <module>.cfg).

    Returns TlcResult(stdout, generated, distinct, depth, violated, wall_s, rc).
    `violated` is the name of a violated invariant/property or None.
    rc 0 = no error; 12 = safety violation; 13 = liveness; others = machinery.
    """
    tag = tag or module
    meta = workdir("tlc_" + tag)
    cfg = cfg or (module + ".cfg")
    cmd = ["java", "-XX:+UseParallelGC", "-Xmx" + xmx, "-Xss64m", "-cp", JAR, "tlc2.TLC",
           "-metadir", meta, "-noGenerateSpecTE", "-workers", str(workers),
           "-config", cfg]
    if not deadlock:
        cmd.append("-deadlock")  # -deadlock DISABLES deadlock checking
    if simulate:
        cmd += ["-simulate", simulate]
    if depth:
        cmd += ["-depth", str(depth)]
    if seed is not None:
        cmd += ["-seed", str(seed)]
    if coverage:
        cmd += ["-coverage", "1"]
    cmd += list(extra)
    cmd.append(module + ".tla")
    e = dict(os.environ)
    e.pop("JAVA_TOOL_OPTIONS", None)
    if env:
        e.update({k: str(v) for k, v in env.items()})
    t0 = time.time()
    try:
        p = subprocess.run(cmd, cwd=SPEC, env=e, stdout=subprocess.PIPE, stderr=subprocess.STDOUT,
                           timeout=timeout, text=True, errors="replace")
    except subprocess.TimeoutExpired as ex:
        raise TlcError("TLC timeout after %ss on %s/%s" % (timeout, module, cfg))
    finally:
        shutil.rmtree(meta, ignore_errors=True)
    out = p.stdout
    r = TlcResult(stdout=out, rc=p.returncode, wall_s=round(time.time() - t0, 2), module=module, cfg=cfg)
    m = None
    for m in _RE_STATES.finditer(out):
        pass
    r["generated"] = int(m.group(1)) if m else 0
    r["distinct"] = int(m.group(2)) if m else 0
    m = _RE_DEPTH.search(out)
    r["depth"] = int(m.group(1)) if m else 0
    mi = _RE_INV.search(out)
    r["violated"] = mi.group(1) if mi else None
    if r["violated"] is None and ("is violated" in out or "was violated" in out or "were violated" in out):
        r["violated"] = "property"
    if check and p.returncode != 0:
        raise TlcError("TLC rc=%s on %s/%s\n%s" % (p.returncode, module, cfg, out[-4000:]))
    return r


def sany(module):
    cmd = ["java", "-cp", JAR, "tla2sany.SANY", module + ".tla"]
    p = subprocess.run(cmd, cwd=SPEC, stdout=subprocess.PIPE, stderr=subprocess.STDOUT, text=True)
    ok = p.returncode == 0 and "Semantic errors" not in p.stdout and "***Parse Error***" not in p.stdout \
        and "Fatal errors" not in p.stdout and "Could not find module" not in p.stdout
    return ok, p.stdout


def write_ndjson(path, records):
    with open(path, "w") as f:
        for r in records:
            f.write(json.dumps(r, separators=(",", ":")))
            f.write("\n")


def read_ndjson(path):
    out = []
    if not os.path.exists(path):
        return out
    with open(path) as f:
        for line in f:
            line = line.strip()
            if line:
                out.append(json.loads(line))
    return out
