"""Replay worker: executes generated cases against the real library.

Usage: python -m harness.worker <driver> <cases.ndjson> <out.ndjson>
Imports mingus from $MINGUS_REPO (default /repo) - asserted. No property logic here.
"""
import sys, os, json, importlib, signal

def main():
    drv, cin, cout = sys.argv[1:4]
    repo = os.environ.get("MINGUS_REPO", "/repo")
    sys.path.insert(0, repo)
    os.environ.setdefault("MINGUS_VERIF", "1")
    import mingus
    assert os.path.realpath(mingus.__file__).startswith(os.path.realpath(repo) + os.sep), \
        "mingus imported from %s, not %s" % (mingus.__file__, repo)
    mod = importlib.import_module("harness.drv." + drv)
    from harness.drv import common
    common.install_alarm()
    if os.environ.get("VERIF_WARMUP") == "1":
        # second order pass: the rest of the library has been used before the cases are asked (nothing is observed here)
        from harness.drv import warmup
        try:
            common.guarded(warmup.run, 60)
        except BaseException:
            pass
    with open(cin) as f, open(cout, "w") as g:
        for line in f:
            line = line.strip()
            if not line:
                continue
            case = json.loads(line)
            cid = case["cid"]
            try:
                recs = common.guarded(lambda: mod.run_case(case), getattr(mod, "CASE_TIMEOUT", 20))
            except common.Hang:
                recs = [{"op": "case", "in": {}, "ok": False, "out": 0, "err": "hang"}]
            for r in recs:
                r["cid"] = cid
                g.write(json.dumps(r, separators=(",", ":")))
                g.write("\n")

if __name__ == "__main__":
    main()
