"""Replay worker: executes generated cases against the real library.

Usage: python -m harness.worker <driver> <cases.ndjson> <out.ndjson>
Imports mingus from $MINGUS_REPO (default /repo) - asserted. No property logic here.
"""
import sys, os, json, importlib, signal

def main():
    drv, cin, cout = sys.argv[1:4]
    start = int(sys.argv[4]) if len(sys.argv) > 4 else 0      # index of the first case to execute (a worker that restarted itself)
    repo = os.environ.get("MINGUS_REPO", "/repo")
    sys.path.insert(0, repo)
    os.environ.setdefault("MINGUS_VERIF", "1")
    import mingus
    assert os.path.realpath(mingus.__file__).startswith(os.path.realpath(repo) + os.sep), \
        "mingus imported from %s, not %s" % (mingus.__file__, repo)
    # a call that runs away inside the library (a list growing without end) must end as a failed CALL, not as a dead worker:
    # the address space of a worker is capped, so such a call raises MemoryError, which is recorded like any other error
    try:
        import resource
        cap = int(os.environ.get("VERIF_WORKER_MEM_GB", "8")) * 1024 ** 3
        resource.setrlimit(resource.RLIMIT_AS, (cap, cap))
    except Exception:
        pass
    mod = importlib.import_module("harness.drv." + drv)
    from harness.drv import common
    common.install_alarm()
    if os.environ.get("VERIF_WARMUP") == "1":
        # second order pass: the rest of the library has been used before the cases are asked (nothing is observed here)
        from harness.drv import warmup
        try:
            common.guarded(warmup.run, 60)
        except BaseException:
            pass
    with open(cin) as f, open(cout, "a" if start else "w") as g:
        for index, line in enumerate(f):
            line = line.strip()
            if not line or index < start:
                continue
            case = json.loads(line)
            cid = case["cid"]
            try:
                recs = common.guarded(lambda: mod.run_case(case), getattr(mod, "CASE_TIMEOUT", 20))
            except common.Hang:
                recs = [{"op": "case", "in": {}, "ok": False, "out": 0, "err": "hang"}]
            except MemoryError:
                recs = [{"op": "case", "in": {}, "ok": False, "out": 0, "err": "MemoryError"}]
            try:
                lines = []
                for r in recs:
                    r["cid"] = cid
                    lines.append(json.dumps(r, separators=(",", ":")))
            except MemoryError:      # the records themselves do not fit (logs grown without bound): the case is reported as failed
                recs = lines = None
                recs = [{"op": "case", "in": {}, "ok": False, "out": 0, "err": "MemoryError", "cid": cid}]
                lines = [json.dumps(recs[0], separators=(",", ":"))]
            for ln in lines:
                g.write(ln)
                g.write("\n")
            if any(r.get("err") in ("hang", "MemoryError") for r in recs):
                # a call ran away: what it left behind (a list of gigabytes kept by the library, a timer) must not decide the
                # following cases - they are executed by a fresh interpreter, from the next case on
                g.flush()
                os.fsync(g.fileno())
                os.execv(sys.executable, [sys.executable, "-m", "harness.worker", drv, cin, cout, str(index + 1)])

if __name__ == "__main__":
    main()
