"""Regenerates /verif/MANIFEST.json from the table below (run after adding a check)."""
import json, os
V = os.path.dirname(os.path.dirname(os.path.abspath(__file__)))
props = [json.loads(l) for l in open(os.path.join(V, "properties.jsonl"))]
TABLE = json.load(open(os.path.join(V, "harness", "checks.json")))
checks, na = [], []
for p in props:
    i = p["id"]
    t = TABLE.get(i)
    if not t:
        na.append({"property_id": i, "reason": "check not built yet (build in progress; planned with the TLA+ machinery, DESIGN.md section 4)"})
        continue
    checks.append({"property_id": i, "quick_cmd": "./check %s --tier quick" % i, "thorough_cmd": "./check %s --tier thorough" % i,
                   "evidence_file": "evidence/%s.json" % i, "replay_cmd_template": "./check %s --replay {path}" % i,
                   "engine": "tlc-conformance",
                   "level_claimed": {"category": "model_checking", "text": t["level"], "design_ref": "DESIGN.md section 4, " + i},
                   "level_note": t["note"], "technique": t["technique"]})
m = {"version": 1, "setup_cmd": "./setup.sh",
     "hooks": {"guard": "MINGUS_VERIF",
               "enable": "no build step: checks import mingus from /repo's working tree (MINGUS_REPO overrides) with MINGUS_VERIF=1 in the environment; no source hooks exist so far",
               "baseline_off_cmd": "cd /repo && /venv/bin/python -m pytest -ra -q -p no:cacheprovider --timeout=900 --continue-on-collection-errors",
               "source_commits": TABLE.get("_hook_commits", []), "add_only": True},
     "engines": [{"name": "tlc-conformance", "path": "/verif/check", "serves_properties": [c["property_id"] for c in checks],
                  "kind_free_text": "explicit TLA+ specification (spec/*.tla) model-checked with TLC; TLC-generated inputs/histories/programs replayed into the real library; every recorded call/step validated by TLC against the specification (trace validation); cases are executed in two orders in fresh interpreters (order passes), rejections are re-executed before they are reported"}],
     "checks": checks, "not_applicable": na,
     "notes": "All verdicts are computed by TLC on recorded traces; Python only executes mingus and projects observations. Extension checks X01-X06 (./check X0n; specification beyond the listed properties, DESIGN.md section 14) are not registered here. See DESIGN.md."}
json.dump(m, open(os.path.join(V, "MANIFEST.json"), "w"), indent=1)
print(len(checks), "checks;", len(na), "not yet claimed")
