"""C08 Diatonic harmony."""


def run(ctx):
    t = ctx.tier
    ctx.mc("MC_C08", "MC_C08.cfg")
    cases = ctx.gen("Gen_C08", "Gen_C08_%s.cfg" % t)
    ctx.exhaustive = True
    ctx.bounds = {"quick": "30 keys x 7 degrees x {triad, seventh} through function names, aliases and numeral strings in both cases; prefixes -3..3 x 53 suffixes x 7 degrees in 8 keys; chord->function on all diatonic chords of the 15 major keys; parse/format; every substitution function on 7 numerals x 8 suffixes x prefixes -1..1 (depth 0..2), promises evaluated in all 15 major keys",
                  "thorough": "prefix x suffix product in all 30 keys"}[t]
    ctx.rule = ("TLC-enumerated cases (Gen_C08); distinct = distinct (operation, arguments); non-trivial = key other than C/a, or a prefix, or a suffix other than ''")
    ctx.nontrivial = lambda r: r["in"].get("k") not in (["C"], None) or r["in"].get("acc", 0) != 0 or "prog" in r["in"]
    recs = ctx.execute("c08", cases, orders=2)
    ctx.validate("Trace_C08", recs, driver="c08", shard=6000)
