"""C19 Notation exports (LilyPond, MusicXML) decode back to the same music."""
from . import c16


def run(ctx):
    ctx.mc("MC_C19", "MC_C19.cfg")
    sysp, sim = c16.programs(ctx)
    sys19 = ctx.gen("Gen_Program", "Gen_Program_sys19.cfg")
    cases = [{"kind": "prog", "prog": p} for p in sys19 + sysp + sim]
    ctx.exhaustive = False
    ctx.bounds = {"quick": "%d systematic notation programs (35 names x octaves 0..8; the full 80-value vocabulary incl. longa/breve, alone and mixed with tuplets; empty bars; chords of 1..5 notes; titles/authors with markup characters) + the %d systematic MIDI programs (30 keys, 8 meters, ...) + 300 TLC-simulated programs; LilyPond from_Composition / from_Track / from_Bar / from_NoteContainer / from_Note and MusicXML from_Composition" % (len(sys19), len(sysp)),
                  "thorough": "5000 simulated programs (<= 4 tracks x 6 bars)"}[ctx.tier]
    ctx.rule = "programs from the TLA+ builder machine; the LilyPond text is lexed into tokens by the harness and read by the token automaton of Notation.tla; distinct = distinct (operation, program); non-trivial = program with an accidental, a chord, a rest, a dotted or tuplet value, or a key/meter other than C major 4/4"
    ctx.nontrivial = lambda r: r["op"] != "build"
    recs = ctx.execute("c19", cases, orders=2)
    ctx.validate("Trace_C19", recs, driver="c19", shard=4000)
