"""C20 Tunings and tablature."""
CHORDS = ["C", "Am", "G7", "Dm7", "E", "F#m", "Bb", "Cmaj7", "A7", "Em", "D", "Bdim", "Fsus4", "Eb", "C#m7"]


def run(ctx):
    q = ctx.quick()
    ctx.mc("MC_C20", "MC_C20.cfg")
    nt = 12 if q else 80
    cases = []
    for ti in (range(0, 80, 7) if q else range(0, 80)):
        cases.append({"kind": "frets", "ti": ti, "lo": 0, "hi": 128})
    instrs = ["", "guitar", "Gui", "bass", "B", "mandolin", "Ukulele", "banjo", "violin", "Huapanguera", "x", "Bass guitar", "GUITAR"]
    queries = [[i, "", ns, nc] for i in instrs for ns in (None, 4, 5, 6, 12) for nc in (None, 1, 2)]
    queries += [[i, d, ns, nc] for i in ("guitar", "bass", "b", "mandolin") for d in ("standard", "s", "drop", "open", "x") for ns in (None, 4, 6) for nc in (None, 1)]
    cases.append({"kind": "lookup", "queries": queries})
    n_sets = 600 if q else 20000
    for i in range(n_sets):
        ti = ctx.rng.randrange(80)
        k = ctx.rng.randint(1, 4)
        base = ctx.rng.randint(28, 60)
        cases.append({"kind": "fingering", "ti": ti, "notes": [base + ctx.rng.randint(0, 14) for _ in range(k)], "maxdist": ctx.rng.choice([3, 4, 4, 6])})
    # chords in which one note's name begins another's (E and Eb in C E G Bb Eb), on six- and seven-string guitars and a bass
    for named in (["Guitar", "Standard"], ["Guitar", "Drop D"], ["Bass guitar", "Standard 6"]):
        for ch in ("Chendrix", "C7b12", "Ahendrix", "Ehendrix"):
            cases.append({"kind": "chord", "ti": 0, "named": named, "chord": ch, "maxdist": 4, "maxfingers": 4})
    for ti in (3, 11, 20, 33, 47):
        for ch in (CHORDS[:6] if q and ti != 33 else CHORDS):
            cases.append({"kind": "chord", "ti": ti, "chord": ch, "maxdist": 4, "maxfingers": 4})
    progs = ctx.gen_printed("Gen_C20", "Gen_C20_%s.cfg" % ctx.tier, simulate="num=%d" % (200 if q else 3000), depth=12 if q else 18, seed=ctx.seed + 31, parallel=8)
    cases += [{"kind": "prog", "prog": p, "bass": i % 3 == 0} for i, p in enumerate(progs)]
    ctx.exhaustive = False
    ctx.bounds = {"quick": "12 of the registered tunings x all strings x notes 0..127 x maxfret {12, 24}; get_Note grid around the bounds; 335 lookup queries; 600 random note sets (1..4 notes) over all tunings against the brute-force fingering specification (max distance 3/4/6); chord fingerings for 6 chords on 5 tunings; 200 TLC-simulated bars/tracks/compositions rendered at widths 60/80/100 (from_Composition, from_Track, from_Bar, from_NoteContainer, from_Note), with unplayable entries mixed in",
                  "thorough": "all tunings; 20000 note sets; 15 chords; 3000 rendered programs"}[ctx.tier]
    ctx.rule = "tunings are read from the registry at run time (data); note sets are seeded random (domain), programs come from the TLA+ builder Gen_C20; distinct = distinct (operation, tuning, arguments / program); non-trivial = everything except notes outside every string's range"
    ctx.nontrivial = lambda r: r["op"] != "build"
    recs = ctx.execute("c20", cases, orders=2)
    ctx.validate("Trace_C20", recs, driver="c20", shard=4000)
