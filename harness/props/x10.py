"""X10 (extension): chord inversions are rotations of the note list, on built chords and on any list of names."""


def run(ctx):
    ctx.mc("MC_X10", "MC_X10.cfg", workers=4)
    cases = ctx.gen("Gen_X10", "Gen_X10_%s.cfg" % ctx.tier)
    n_rand = 400 if ctx.quick() else 8000
    for _ in range(n_rand):      # any list of 1..7 names (repeats allowed): the functions never look at what the names mean
        ch = [[ctx.rng.choice("ABCDEFG")] + [ctx.rng.choice("#b") for _ in range(ctx.rng.randint(0, 2))] for _ in range(ctx.rng.randint(1, 7))]
        cases.append({"kind": "list", "ch": ch})
    ctx.exhaustive = True
    ctx.bounds = {"quick": "model: 51 documented shorthands x 21 roots; code: the same chords built by from_shorthand and inverted 0..4 times, + 400 random lists of 1..7 names",
                  "thorough": "code: 51 shorthands x 35 roots, 8000 random lists"}[ctx.tier]
    ctx.rule = "TLC-assembled chords (Gen_X10) + random lists; distinct = distinct (list or shorthand, number of inversions); non-trivial = every record"
    ctx.nontrivial = lambda r: True
    recs = ctx.execute("x10", cases)
    ctx.validate("Trace_X10", recs, driver="x10", shard=30000)
