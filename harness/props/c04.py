"""C04 Keys: signatures, key notes, relatives and diatonic steps."""


def run(ctx):
    t = ctx.tier
    ctx.mc("MC_C04", "MC_C04.cfg")
    cases = ctx.gen("Gen_C04", "Gen_C04_%s.cfg" % t)
    ctx.exhaustive = True
    ctx.bounds = {"quick": "all 30 keys; every string of length <= 3 over a 17-character alphabet as candidate key; signature numbers -12..12; 30 keys x names with <= 2 accidentals x steps 1..6 (named function and generic interval())",
                  "thorough": "candidate strings of length <= 4; notes with <= 3 accidentals"}[t]
    ctx.rule = ("TLC-enumerated (Gen_C04): keys, candidate key strings, signature numbers, (key, note) pairs; distinct = "
                "distinct (operation, arguments); non-trivial = the key has a non-empty signature or the candidate string is not a key")
    ctx.nontrivial = lambda r: r["in"].get("k") not in (["C"], ["a"]) if "k" in r["in"] else r["in"].get("i") != 0
    cases.append({"kind": "fresh"})
    recs = ctx.execute("c04", cases, orders=2)
    ctx.validate("Trace_C04", recs, driver="c04")
