"""C05 Scales."""
N35 = [L + a for L in "CDEFGAB" for a in ("bb", "b", "", "#", "##")]


def run(ctx):
    t = ctx.tier
    ctx.mc("MC_C05", "MC_C05_%s.cfg" % t)
    cases = ctx.gen("Gen_C05", "Gen_C05_%s.cfg" % t)
    n_rand = 400 if ctx.quick() else 20000
    for _ in range(n_rand):      # random note sets (mostly unrecognisable; exercises soundness/completeness)
        k = ctx.rng.randint(1, 7)
        pool = N35 if ctx.rng.random() < 0.3 else [L + a for L in "CDEFGAB" for a in ("b", "", "#")]
        cases.append({"kind": "rec", "notes": [list(x) for x in ctx.rng.sample(pool, k)]})
    ctx.exhaustive = True
    ctx.bounds = {"quick": "17 classes x every valid tonic (free tonics: every name with <= 2 accidentals in any order; families: the 15 key tonics; chromatic: 30 keys) x octaves 1..2 x every degree x both directions; recognition on all 1- and 7-subsets of every family scale form + random sets",
                  "thorough": "free tonics <= 3 accidentals, octaves 1..4, recognition on all 1-,2-,3-,7-subsets + 20000 random sets"}[t]
    ctx.rule = ("TLC-enumerated scale objects, equality pairs and note sets (Gen_C05) + %d seeded random note sets; distinct = "
                "distinct (operation, arguments); non-trivial = tonic with an accidental, or more than one octave, or a note set of >= 2 notes" % n_rand)
    ctx.nontrivial = lambda r: (len(r["in"].get("t", [])) > 1 or r["in"].get("n", 1) > 1 or len(r["in"].get("notes", [])) > 1 or "a" in r["in"])
    recs = ctx.execute("c05", cases, orders=2)
    ctx.validate("Trace_C05", recs, driver="c05", shard=8000)
