"""C11, container / bar / track level: lifting of transposition, augment, diminish (programs from the Track machine)."""


def run(ctx):
    q = ctx.quick()
    tracks = ctx.gen_printed("MC_C14", "Gen_C14_walk.cfg", simulate="num=%d" % (200 if q else 3000), depth=26, seed=ctx.seed + 5)
    seqs = ctx.gen_printed("Gen_C11L", "Gen_C11L.cfg", simulate="num=%d" % (200 if q else 3000), depth=6, seed=ctx.seed + 6)
    if not tracks or not seqs:
        from ..framework import Machinery
        raise Machinery("no lifting programs generated")
    n = 200 if q else 3000
    cases = []
    for i in range(n):
        tr = tracks[i % len(tracks)]
        cases.append({"kind": "lift", "instr": ("none", "generic", "piano", "midi")[i % 4], "acts": tr["acts"], "steps": seqs[(i * 7) % len(seqs)]["steps"]})
    ctx.behaviours = (ctx.behaviours or 0) + len(cases)
    ctx.bounds = str(ctx.bounds) + "; lifting: %d TLC-simulated tracks (notes, chords, rests, mixed values, several meters/keys) x sequences of 5 transposition/augment/diminish steps at track, bar and container level" % n
    recs = ctx.execute("c11l", cases)
    ctx.validate("Trace_C11L", recs, driver="c11l", shard=8000)
