"""C11 Transposition (note level here; container/bar/track lifting is added by lifting.py)."""


def run(ctx):
    ctx.mc("MC_C10", "MC_C10.cfg")
    cases = [c for c in ctx.gen("Gen_C10", "Gen_C10.cfg") if c["kind"] in ("tr", "octave", "note")]
    # two-step histories through octave -1: every name in octave 0, down by an interval, then a second transposition
    cases += [{"kind": "tr2", "n": c["n"], "sh": c["sh"]} for c in cases if c["kind"] == "tr" and c["o"] == 0 and (ctx.tier != "quick" or len(c["sh"]) == 1)]
    if ctx.quick():
        cases = [c for c in cases if c["kind"] != "tr" or 1 <= c["o"] <= 7] 
        cases = [c for c in cases if c["kind"] != "note" or c["o"] in (0, 4)]
    ctx.exhaustive = True
    ctx.bounds = {"quick": "35 names x octaves 1..7 x 35 shorthands x {up, down} + round trip; change_octave (and octave_up/down) on 35 names from octaves 0..4 by -6..3",
                  "thorough": "octaves 0..9"}[ctx.tier]
    ctx.rule = "TLC-enumerated (Gen_C10); distinct = distinct (operation, arguments); non-trivial = name with an accidental or a shorthand with an accidental"
    ctx.nontrivial = lambda r: r["op"] == "lift" or (isinstance(r["in"].get("n"), list) and len(r["in"]["n"]) > 1) or len(r["in"].get("sh", [])) > 1 or "diff" in r["in"]
    recs = ctx.execute("c10", cases, orders=2)
    recs = [r for r in recs if r["op"] in ("transpose", "transpose_updown", "change_octave", "augdim")]
    ctx.validate("Trace_C10", recs, driver="c10")
    try:
        from . import lifting
    except ImportError:
        lifting = None
    if lifting:
        lifting.run(ctx)
