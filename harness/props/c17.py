"""C17 Writing a composition to MIDI and reading it back returns the same music."""
from . import c16


def run(ctx):
    ctx.mc("MC_C17", "MC_C17.cfg")
    ctx.mc("MC_C16", "MC_C16.cfg")
    sysp, sim = c16.programs(ctx)
    q = ctx.quick()
    sim += ctx.gen_printed("Gen_Program", "Gen_Program_rt_%s.cfg" % ctx.tier, simulate="num=%d" % (300 if q else 5000), depth=16 if q else 42,
                           seed=ctx.seed + 17, parallel=12)
    cases = [{"kind": "prog", "prog": p} for p in sysp + sim]
    cases += ctx.gen("Gen_C17T", "Gen_C17T_%s.cfg" % ctx.tier)      # values of ANY whole tick count (288 / k), not only the documented vocabulary
    bpms = list(range(4, 1001))
    for i in range(0, len(bpms), 100):
        cases.append({"kind": "bpm", "bpms": bpms[i:i + 100]})
    ns = c16.vlq_values(ctx)
    for i in range(0, len(ns), 5000):
        cases.append({"kind": "vlq", "ns": ns[i:i + 5000]})
    # not-MIDI files: every byte of the 'MThd' and 'MTrk' tags replaced, and impossible format numbers
    edits = [[pos, val] for pos in (0, 1, 2, 3, 14, 15, 16, 17) for val in (0, 0x20, 0x4D, 0x54, 0x7A, 0xFF)] + \
            [[9, v] for v in (3, 4, 9, 0x7F, 0xFF)] + [[8, v] for v in (1, 0x80)]
    # whole tags: the other valid chunk tag in the wrong place, other four-letter tags, wrong case
    tags = [[77, 84, 114, 107], [77, 84, 104, 100], [82, 73, 70, 70], [109, 116, 104, 100], [109, 116, 114, 107], [77, 84, 104, 68], [0, 0, 0, 0]]
    edits += [[pos, t] for pos in (0, 14) for t in tags]
    cases.append({"kind": "corrupt", "edits": edits})
    ctx.exhaustive = False
    ctx.bounds = {"quick": "the C16 programs (%d systematic + 300 simulated) + 300 simulated round-trippable ones, restricted by the specification to round-trippable ones (whole tick counts, velocity 1..127, no tempo change); one 4/4 bar cut at every tick 1..287 and in three with a rest (values 288 / k for any whole k); bpm 4..1000 all values; VLQ as in C16 through the real reader; %d corrupted headers / track tags / format numbers" % (len(sysp), len(edits)),
                  "thorough": "5000 simulated programs"}[ctx.tier]
    ctx.rule = ("programs from the TLA+ builder machine; distinct = distinct (operation, program/argument); non-trivial = program with a rest or more than one entry, any bpm other than 120, VLQ >= 128, any corruption")
    ctx.nontrivial = lambda r: r["op"] == "rt_ticks" or r["op"] != "roundtrip" or sum(len(b["entries"]) for t in r["prog"]["tracks"] for b in t["bars"]) > 1
    recs = ctx.execute("c17", cases, orders=2)
    ctx.validate("Trace_C17", recs, driver="c17", shard=6000)
