"""C02 Named interval constructors, semitone measure, consonance."""


def run(ctx):
    t = ctx.tier
    ctx.mc("MC_C02", "MC_C02_%s.cfg" % t)
    cases = ctx.gen("Gen_C02", "Gen_C02_%s.cfg" % t)
    n_rand = 300 if ctx.quick() else 5000
    for _ in range(n_rand):
        k = ctx.rng.randint(6, 30)
        cases.append({"kind": "name", "n": [ctx.rng.choice("ABCDEFG")] + [ctx.rng.choice("#b") for _ in range(k)]})
    # every letter with 6..9 sharps and with 6..9 flats (the result carries at most six accidentals whatever the input carries)
    for L in "ABCDEFG":
        for k in range(6, 10):
            for a in "#b":
                cases.append({"kind": "name", "n": [L] + [a] * k})
    ctx.exhaustive = True
    ctx.bounds = {"quick": "constructors: 17 x every name with <= 5 accidentals in every order; measure/consonance: all ordered pairs of names with <= 3 accidentals, each flag value and the default",
                  "thorough": "constructors on names with <= 8 accidentals; pairs over <= 5 accidentals"}[t]
    ctx.rule = ("TLC-enumerated names/pairs (Gen_C02) plus %d seeded random names with 6..30 accidentals and every letter with 6..9 sharps / flats; distinct = "
                "distinct (operation, arguments); non-trivial = some argument carries an accidental" % n_rand)
    ctx.nontrivial = lambda r: any(len(v) > 1 for v in r["in"].values() if isinstance(v, list))
    recs = ctx.execute("c02", cases, orders=2)
    ctx.validate("Trace_C02", recs, driver="c02")
