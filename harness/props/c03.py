"""C03 Interval naming and interval shorthand are mutually inverse."""


def run(ctx):
    t = ctx.tier
    ctx.mc("MC_C02", "MC_C02_%s.cfg" % t)
    cases = ctx.gen("Gen_C03", "Gen_C03_%s.cfg" % t)
    n_rand = 200 if ctx.quick() else 3000
    for _ in range(n_rand):
        cases.append({"kind": "list", "xs": [[ctx.rng.choice("ABCDEFG")] + [ctx.rng.choice("#b") for _ in range(ctx.rng.randint(0, 2))]
                                             for _ in range(ctx.rng.randint(0, 7))]})
    ctx.exhaustive = True
    ctx.bounds = {"quick": "all 1225 ordered pairs of the 35 standard names x long/short form + inverse; 35 names x 35 shorthands x up/down + round trip; mixed-order names of length <= 2 x 35 shorthands (letter/semitone clauses)",
                  "thorough": "as quick, mixed-order names up to length 4"}[t]
    ctx.rule = ("TLC-enumerated (Gen_C03) pairs, (name, shorthand) combinations and interval lists plus %d random lists; "
                "distinct = distinct (operation, arguments); non-trivial = an argument carries an accidental" % n_rand)
    ctx.nontrivial = lambda r: any(len(v) > 1 for v in r["in"].values() if isinstance(v, list))
    recs = ctx.execute("c03", cases, orders=2)
    ctx.validate("Trace_C03", recs, driver="c03")
