"""C13 Bar: exact time accounting under any placement history."""


def run(ctx):
    t = ctx.tier
    q = ctx.quick()
    ctx.mc("MC_C13", "MC_C13_%s.cfg" % t, timeout=3000)
    # the accounting over UNBOUNDED integer tick values (Apalache, inductive invariant); negative control must be refuted
    ctx.apalache("BarAcct", [("base: Init => IndInv", ["--init=Init", "--inv=IndInv", "--length=0"], "NoError"),
                             ("step: IndInv /\\ Next => IndInv'", ["--init=IndInit", "--inv=IndInv", "--length=1"], "NoError"),
                             ("IndInv => Safety", ["--init=IndInit", "--inv=Safety", "--length=0"], "NoError")])
    ctx.apalache("BarAcctBroken", [("negative control: a placement that is not counted breaks the step", ["--init=IndInit", "--inv=IndInv", "--length=1"], "Error")])
    fills = ctx.gen("Gen_C13F", "Gen_C13F_%s.cfg" % t)
    hists = ctx.gen_printed("MC_C13", "Gen_C13_hist_%s.cfg" % t)
    exact = ctx.gen_printed("MC_C13", "Gen_C13_exact.cfg", simulate="num=%d" % (200 if q else 3000), depth=61, seed=ctx.seed + 1, parallel=1 if q else 2)      # thorough: two runs of 3000 (one run of 6000 exhausts a 3 GB heap)
    walks = ctx.gen_printed("MC_C13", "Gen_C13_walk.cfg", simulate="num=%d" % (20 if q else 600), depth=41, seed=ctx.seed + 2)
    if len(walks) > (150 if q else 5000):
        walks = ctx.rng.sample(walks, 150 if q else 5000)
    seen = set()
    ex2 = []
    for e in exact:       # distinct exact-sum fills only
        key = repr(e)
        if key not in seen:
            seen.add(key)
            ex2.append(e)
    if len(ex2) > (600 if q else 20000):
        ex2 = ctx.rng.sample(ex2, 600 if q else 20000)
    cases = [{"kind": "placeat" if f.get("placeat") else "fill", "meter": f["meter"], "v": f["v"], "n": f["n"], "acts": []} for f in fills]
    cases += [{"kind": "hist", "meter": h["meter"], "acts": h["acts"]} for h in hists + ex2 + walks]
    # a bar switched to the unbounded (0,0) meter after it had a bounded one takes any number of entries; and back
    q4 = {"op": "place_notes", "v": {"b": 4, "d": 0, "r": [1, 1]}, "arg": {"rest": False, "items": [{"t": "bare", "n": ["C"], "o": 0}]}}
    for m in ([2, 4], [4, 4], [3, 8], [6, 8]):
        for pre in (0, 1):
            cases.append({"kind": "hist", "meter": m, "acts": [q4] * pre + [{"op": "set_meter", "count": 0, "unit": 0}] + [q4] * 6 +
                          [{"op": "set_meter", "count": m[0], "unit": m[1]}, q4]})
    # '+' places one beat of the bar's unit - a quarter in the unbounded (0,0) meter - whatever unit the bar had before
    plus = {"op": "plus", "arg": {"rest": False, "items": [{"t": "bare", "n": ["E"], "o": 0}]}}
    for m in ([6, 8], [2, 2], [3, 2], [12, 8], [4, 4], [5, 16]):
        cases.append({"kind": "hist", "meter": m, "acts": [plus, {"op": "set_meter", "count": 0, "unit": 0}, plus, plus,
                                                             {"op": "set_meter", "count": m[0], "unit": m[1]}, plus, {"op": "set_meter", "count": 3, "unit": 8}, plus]})
    # meters of count 0 with a beat unit (length 0): accepted exactly for power-of-two units, from every starting meter, and back
    for m in ([2, 4], [4, 4], [0, 0]):
        for u in (1, 2, 4, 8, 16, 32, 64, 128, 3, 6, 12):
            cases.append({"kind": "hist", "meter": m, "acts": [{"op": "set_meter", "count": 0, "unit": u}, q4, {"op": "set_meter", "count": 4, "unit": 4}, q4]})
    # notes added to the entry that sounds at a beat, the beat given as a whole number (1 and 2 are beats, not positions)
    for nq in (5, 6, 9):
        for beat in (1, 2):
            cases.append({"kind": "hist", "meter": [0, 0], "acts": [q4] * nq + [{"op": "place_at_beat", "beat": beat, "arg": {"rest": False, "items": [{"t": "pair", "n": ["E"], "o": 5}]}}]})
    # systematic near-overflow fills: the last value is too long (or leaves room) by less than a thousandth of a whole note
    near = ctx.gen("Gen_C13N", "Gen_C13N.cfg")
    if q and len(near) > 700:
        near = ctx.rng.sample(near, 700)
    cases += [{"kind": "hist", "meter": h["meter"], "acts": h["acts"]} for h in near]
    # the same histories with the caller placing ONE container object wherever the same chord recurs (an edit of one entry must
    # not reach the others); histories that add notes to an entry at a beat are left out (that edit goes through the shared object)
    shareable = [h for h in hists + walks if any(a["op"] == "set_item" for a in h["acts"]) and not any(a["op"] in ("place_at", "plus") for a in h["acts"])
                 and sum(1 for a in h["acts"] if a["op"] == "place_notes") >= 2]
    if len(shareable) > (400 if q else 5000):
        shareable = ctx.rng.sample(shareable, 400 if q else 5000)
    cases += [{"kind": "hist", "meter": h["meter"], "acts": h["acts"], "share": True} for h in shareable]
    # and the shortest such histories, systematically: each placement action twice, then each content edit of entry 1 or 2
    import json as _json
    uniq = lambda xs: [_json.loads(x) for x in sorted({_json.dumps(a, sort_keys=True) for a in xs})]
    places = uniq(a for h in hists for a in h["acts"] if a["op"] == "place_notes" and not a["arg"]["rest"])
    edits = uniq(a for h in hists + walks for a in h["acts"] if a["op"] == "set_item" and a["i"] == 1)
    for pa in places[:12]:
        for ed in edits[:12]:
            for idx in (1, 2):
                for kshift in (0, 1, 2):      # the edit is given as a list, a container, a single item
                    cases.append({"kind": "hist", "meter": [0, 0], "acts": [pa] * (2 + kshift) + [dict(ed, i=idx)], "share": True})
    # an entry placed as an empty list receives the container object that is also the content of another entry, then more notes
    e0 = {"op": "place_notes", "v": {"b": 4, "d": 0, "r": [1, 1]}, "arg": {"rest": False, "items": []}}
    for pa in [x for x in places if x["arg"]["items"]][:6]:       # (an empty chord here would be the very object of entry 1)
        for ed in [e for e in edits if not e["arg"]["rest"]][:4]:
            cases.append({"kind": "hist", "meter": [0, 0], "share": True,
                          "acts": [e0, pa, {"op": "place_at_obj", "i": 1, "arg": pa["arg"]}, {"op": "place_at", "i": 1, "arg": ed["arg"]}]})
    ctx.behaviours = len(cases)
    ctx.exhaustive = True
    ctx.bounds = {"quick": "fills to capacity: all 80 vocabulary values x 3 bounded meters (place until refused, then twice more); all histories of depth 2 over 19 actions x 4 meters; %d distinct exact-sum fills found by TLC simulation (one more attempt after the bar is exactly full); 150 walks of depth 40 over the full vocabulary with content edits and meter changes; 700 sampled of the 4153 near-overflow fills enumerated by TLC over the 80-value vocabulary (two odd values, plain padding, a last value within +-1/1000 whole note of the remaining space) on 5 meters" % len(ex2),
                  "thorough": "fills on 13 meters; histories of depth 3 on 14 meters; 30000 simulated exact fills; 5000 walks; all 4153 near-overflow fills"}[t]
    ctx.rule = ("behaviours generated by TLC (MC_C13: histories, exact-sum fills, walks; Gen_C13F: fills to capacity); distinct = distinct (operation, arguments, line); "
                "non-trivial = every placement / removal / edit step (creation lines are trivial)")
    ctx.nontrivial = lambda r: r["op"] != "new"
    ctx.assumptions.append("float beats are logged as integer ticks (1/215040 whole note) plus residue; residues must stay below 1e-9 whole note; acceptance decisions are compared exactly")
    recs = ctx.execute("c13", cases, orders=2)
    ctx.validate("Trace_C13", recs, driver="c13", shard=20000)
