"""C07 Chord recognition."""


def run(ctx):
    t = ctx.tier
    ctx.mc("MC_C06", "MC_C06.cfg")
    cases = ctx.gen("Gen_C07", "Gen_C07_%s.cfg" % t)
    if ctx.quick():     # quick: a seeded sample of 2000 of the 9261 three-note inputs; thorough: all of them
        tri = [c for c in cases if c["kind"] == "triple"]
        ext = [c for c in cases if c["kind"] == "extended"]
        rest = [c for c in cases if c["kind"] not in ("triple", "extended")]
        cases = rest + ctx.rng.sample(tri, 2000) + ctx.rng.sample(ext, min(len(ext), 2500))
    n21 = [[L] + list(a) for L in "CDEFGAB" for a in ("b", "", "#")]
    for _ in range(500 if ctx.quick() else 20000):
        cases.append({"kind": "random", "chord": ctx.rng.sample(n21, ctx.rng.randint(4, 7))})
    ctx.exhaustive = not ctx.quick()
    ctx.bounds = {"quick": "50 shorthands x 25 roots (<= 1 accidental, and B##, Cbb, G##, Fbb) x every rotation x {shorthand, long} x {default, no_polychords}; 2000 sampled three-note inputs; all 0/1/2-note inputs over 21 names; 500 random 4-7 note inputs; 2500 sampled of the extended chords (every chord of 5+ notes on 3 roots with one further note of 21 inserted at 4 positions, every rotation)",
                  "thorough": "35 roots; all 9261 three-note inputs; 20000 random 4-7 note inputs; all extended chords"}[t]
    ctx.rule = ("TLC builds every chord from the formula table and rotates it (Gen_C07); three-note and small inputs enumerated by TLC; "
                "random larger inputs seeded; distinct = distinct (operation, arguments); non-trivial = an inversion (k > 0), a non-chord input, or a root with an accidental")
    ctx.nontrivial = lambda r: r["in"].get("k", 0) > 0 or r["in"].get("kind") != "chord" or len(r["in"].get("root", [])) > 1
    recs = ctx.execute("c07", cases, orders=2)
    ctx.validate("Trace_C07", recs, driver="c07", shard=5000)
