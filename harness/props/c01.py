"""C01 Note names and pitch classes."""


def run(ctx):
    t = ctx.tier
    ctx.mc("MC_C01", "MC_C01_%s.cfg" % t)
    import itertools
    raw = ctx.gen("Gen_C01", "Gen_C01_%s.cfg" % t)
    cases = []
    for c in raw:      # expand the compactly written products
        if c["kind"] == "pairs_over":
            cases += [{"kind": "pair", "a": a, "b": b} for a in c["names"] for b in c["names"]]
        elif c["kind"] == "strings_over":
            for k in range(1, c["maxlen"] + 1):
                cases += [{"kind": "str", "s": list(s)} for s in itertools.product(c["alphabet"], repeat=k)]
        else:
            cases.append(c)
    # beyond the exhaustive bound: seeded random long names (domain extension only; same oracle)
    n_rand = 2000 if ctx.quick() else 20000
    for _ in range(n_rand):
        k = ctx.rng.randint(7, 64)
        cases.append({"kind": "name", "n": [ctx.rng.choice("ABCDEFG")] + [ctx.rng.choice("#b") for _ in range(k)]})
    # pairs of long names: one letter with every count of sharps or flats up to 13 against every other such count (the pitch
    # classes meet again after twelve accidentals), and seeded pairs across letters
    def acc(k):
        return ["#"] * k if k >= 0 else ["b"] * -k
    for L in "ABCDEFG":
        cases += [{"kind": "pair", "a": [L] + acc(i), "b": [L] + acc(j)} for i in range(-13, 14) for j in range(-13, 14)]
    for _ in range(3000 if ctx.quick() else 30000):
        cases.append({"kind": "pair", "a": [ctx.rng.choice("ABCDEFG")] + acc(ctx.rng.randint(-14, 14)), "b": [ctx.rng.choice("ABCDEFG")] + acc(ctx.rng.randint(-14, 14))})
    ctx.exhaustive = True
    ctx.bounds = {"quick": "names: 7 letters x all #/b strings of length <= 6 (every order); pairs over length <= 3; "
                           "malformed strings over a 15-character alphabet of length <= 3; ints -14..26 x 5 styles",
                  "thorough": "names length <= 10; pairs over length <= 5; malformed length <= 4"}[t]
    ctx.rule = ("cases enumerated by TLC from Gen_C01 (exhaustive inside the bound) plus %d seeded random names of "
                "7..64 accidentals and pairs of names of up to 14 sharps or flats (all same-letter pairs up to 13, seeded pairs across letters); distinct = distinct (operation, arguments); non-trivial = the argument carries "
                "at least one accidental / is a malformed string / is an out-of-range int" % n_rand)
    ctx.nontrivial = lambda r: any(len(v) > 1 for v in r["in"].values() if isinstance(v, list)) or \
        (isinstance(r["in"].get("i"), int) and not 0 <= r["in"]["i"] <= 11)
    recs = ctx.execute("c01", cases, orders=2)
    ctx.validate("Trace_C01", recs, driver="c01")
