"""C09 Note values and meters."""


def run(ctx):
    t = ctx.tier
    ctx.mc("MC_C09", "MC_C09.cfg")
    cases = ctx.gen("Gen_C09", "Gen_C09_%s.cfg" % t)
    if ctx.quick():
        pairs = [c for c in cases if c["kind"] == "pair"]
        cases = [c for c in cases if c["kind"] != "pair"] + ctx.rng.sample(pairs, 600)
    # beat units beyond 32 bits: 2^k + d around the powers of two where whole numbers stop being representable as floats
    for k in (31, 40, 52, 53, 54, 55, 56, 64, 65, 100, 200, 1000):
        for d in (-8, -4, -2, -1, 0, 1, 2, 4, 6, 8):
            cases.append({"kind": "bigunit", "k": k, "d": d, "f": False})
        cases.append({"kind": "bigunit", "k": k, "d": 0, "f": True})
    ctx.exhaustive = not ctx.quick()
    ctx.bounds = {"quick": "all 80 vocabulary values (10 bases x dots 0..4, triplet/quintuplet/septuplet); 10 perturbations within 1% of every undotted / single-dotted value; 600 sampled ordered pairs for add/subtract; beat units -8..300, powers of two to 4096, 21 float units (1.0 and every power of two to 128.0 among them); counts -3..24 x 14 units; whole-number units 2^k + d for 12 k from 31 to 1000 and |d| <= 8",
                  "thorough": "all 6400 ordered pairs; beat units up to 3000"}[t]
    ctx.rule = ("TLC-enumerated (Gen_C09); values are built with the library's own constructors from the descriptor; distinct = distinct (operation, arguments); "
                "non-trivial = dotted/tuplet/perturbed value, or a beat unit that is not a power of two, or a non-positive count")
    ctx.nontrivial = lambda r: (("v" in r["in"] and (r["in"]["v"]["d"] > 0 or r["in"]["v"]["r"] != [1, 1] or r["in"].get("p", 0) != 0))
                                or "a" in r["in"] or "k" in r["in"] or ("u" in r["in"] and (r["in"]["u"][1] != 1 or r["in"]["u"][0] not in (1, 2, 4, 8, 16, 32))))
    ctx.assumptions.append("float results are compared in integer ticks (1/215040 whole note) with a tolerance of 1e-9 whole note; non-termination is decided by a 2 s alarm")
    recs = ctx.execute("c09", cases, orders=2)
    ctx.validate("Trace_C09", recs, driver="c09")
