"""X09 (extension): intervals.get_interval - the note a number of half notes away from a note, spelled on a major key."""


def run(ctx):
    ctx.mc("MC_X09", "MC_X09.cfg", workers=8)
    ctx.mc("MC_X09", "MC_X09_law.cfg", workers=2, expect_violation="ImplMeetsLaw")     # the documented distance fails on letters the key alters: refuted, as designed
    cases = ctx.gen("Gen_X09", "Gen_X09_%s.cfg" % ctx.tier)
    n_rand = 300 if ctx.quick() else 6000
    keys = ["Cb", "Gb", "Db", "Ab", "Eb", "Bb", "F", "C", "G", "D", "A", "E", "B", "F#", "C#"]
    for _ in range(n_rand):      # notes with 3..5 accidentals in any order, large numbers of half notes
        nt = [ctx.rng.choice("ABCDEFG")] + [ctx.rng.choice("#b") for _ in range(ctx.rng.randint(3, 5))]
        cases.append({"kind": "get", "key": list(ctx.rng.choice(keys)), "note": nt, "n": ctx.rng.randint(-200, 200)})
    ctx.exhaustive = True
    ctx.bounds = {"quick": "model: 15 major keys x 35 notes x -13..25 half notes; code: 15 keys x 23 notes x -13..14 half notes, the default key, 4 unknown keys, 300 random notes with 3..5 accidentals and -200..200 half notes",
                  "thorough": "code: 15 keys x 39 notes x -25..38 half notes, 6000 random"}[ctx.tier]
    ctx.rule = "TLC-assembled cases (Gen_X09) + random long notes; distinct = distinct (key, note, half notes); non-trivial = a key or a note with an accidental"
    ctx.nontrivial = lambda r: r["op"] != "get_interval" or len(r["in"]["note"]) > 1 or (not r["in"]["default"] and len(r["in"]["key"]) > 1)
    recs = ctx.execute("x09", cases)
    ctx.validate("Trace_X09", recs, driver="x09", shard=30000)
