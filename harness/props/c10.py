"""C10 The Note object."""


def run(ctx, only=("note", "int", "hz", "helmholtz", "velocity", "channel", "badname")):
    ctx.mc("MC_C10", "MC_C10.cfg")
    cases = [c for c in ctx.gen("Gen_C10", "Gen_C10.cfg") if c["kind"] in only]
    notes = [{"n": c["n"], "o": c["o"]} for c in cases if c["kind"] == "note"]
    std = [x for x in notes if not ("#" in x["n"] and "b" in x["n"])]          # the 35 standard names
    pool = std if not ctx.quick() else [x for x in std if x["o"] in (3, 4, 5)]   # quick: 35 names x 3 adjacent octaves
    for a in pool:
        for b in pool:
            cases.append({"kind": "pair", "a": a, "b": b})
    for _ in range(200 if ctx.quick() else 3000):
        cases.append({"kind": "sort", "notes": [ctx.rng.choice(notes) for _ in range(ctx.rng.randint(0, 9))]})
    ctx.exhaustive = True
    ctx.bounds = {"quick": "49 names (<= 2 accidentals, any order) x octaves 0..9; ints 0..200; all ordered pairs of 35 names x octaves 3..5 (11025 pairs) for the six operators; 128 notes x 5 standard pitches x 5 detunings; Helmholtz on 35 names x 10 octaves; velocity -3..131, channel -3..19",
                  "thorough": "all 122500 ordered pairs of 35 names x 10 octaves"}[ctx.tier]
    ctx.rule = "TLC-enumerated (Gen_C10) + seeded sort lists; distinct = distinct (operation, arguments); non-trivial = name with an accidental, or pair of different notes, or detuned frequency, or out-of-range bound"
    ctx.nontrivial = lambda r: len(r["in"].get("n", [])) > 1 or "a" in r["in"] or r["in"].get("cents", 0) != 0 or "v" in r["in"] or "c" in r["in"] or "notes" in r["in"]
    ctx.assumptions.append("frequency equalities are logged as relative error in 1e-12 and accepted within 1e-9; note identity decisions (which note a frequency maps to) are exact")
    recs = ctx.execute("c10", cases, orders=2)
    ctx.validate("Trace_C10", recs, driver="c10")
