"""C06 Chord shorthand construction."""
MEANINGS = ["minor triad", "major triad", "diminished triad", "augmented triad", "augmented minor seventh",
            "augmented major seventh", "suspended seventh", "suspended fourth triad", "suspended second triad",
            "eleventh", "suspended fourth ninth", "minor seventh", "major seventh", "dominant seventh",
            "half diminished seventh", "diminished seventh", "minor/major seventh", "minor sixth", "major sixth",
            "dominant sixth", "sixth ninth", "dominant ninth", "dominant flat ninth", "dominant sharp ninth",
            "major ninth", "minor ninth", "lydian dominant seventh", "minor eleventh", "major thirteenth",
            "minor thirteenth", "dominant thirteenth", "dominant flat five", "hendrix chord", "major eleventh"]
KEYS = ["m", "M", "", "dim", "aug", "+", "7#5", "M7+5", "M7+", "m7+", "7+", "sus47", "7sus4", "sus4", "sus2", "sus",
        "11", "add11", "sus4b9", "susb9", "m7", "M7", "dom7", "7", "m7b5", "dim7", "m/M7", "mM7", "m6", "M6", "6",
        "6/7", "67", "6/9", "69", "9", "add9", "7b9", "7#9", "M9", "m9", "7#11", "m11", "M13", "m13", "13", "add13",
        "7b5", "hendrix", "7b12", "5", "M11"]


def run(ctx):
    t = ctx.tier
    ctx.mc("MC_C06", "MC_C06.cfg")
    cases = ctx.gen("Gen_C06", "Gen_C06_%s.cfg" % t)
    n35 = [[L] + list(a) for L in "CDEFGAB" for a in ("bb", "b", "", "#", "##")]
    for r in n35:
        for m in MEANINGS:
            cases.append({"kind": "named", "root": r, "meaning": m})
    n_rand = 300 if ctx.quick() else 6000
    for _ in range(n_rand):    # roots with 3..6 accidentals in any order (letter and semitone clauses still apply)
        r = [ctx.rng.choice("ABCDEFG")] + [ctx.rng.choice("#b") for _ in range(ctx.rng.randint(3, 6))]
        sh = ctx.rng.choice(KEYS)
        cases.append({"kind": "chord", "root": r, "sh": sh, "spelled": sh})
    ctx.exhaustive = True
    ctx.bounds = {"quick": "51 documented shorthands x 35 standard roots (+ builder functions, element-wise lists); 34 alias spellings x 5 roots; slash: 2 roots x 51 shorthands x (35 basses + 6 bad basses); polychords: (6 roots x 10 shorthands)^2; malformed classes; the two key sets",
                  "thorough": "slash on 6 roots; alias on 10 roots; polychords (12 roots x 20 shorthands)^2; 6000 random long roots"}[t]
    ctx.rule = ("TLC-assembled structured cases (Gen_C06) + named builders on 35 roots + %d random roots with 3..6 accidentals; distinct = "
                "distinct (operation, arguments); non-trivial = root with an accidental, or slash/polychord/alias/malformed form" % n_rand)
    ctx.nontrivial = lambda r: r["op"] not in ("from_shorthand", "builder", "named_builder", "list") or len(r["in"].get("root", [])) > 1 or r["in"].get("spelled") != r["in"].get("sh")
    recs = ctx.execute("c06", cases, orders=2)
    ctx.validate("Trace_C06", recs, driver="c06", shard=30000)
