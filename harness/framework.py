"""Check framework: model-check -> generate -> execute -> validate (TLC) -> classify -> evidence.

All verdicts on property clauses come from TLC evaluating the TLA+ specification on the
recorded trace. This module only schedules work, matches known findings and writes evidence.
"""
import os, sys, json, time, random, subprocess, shutil, hashlib, concurrent.futures as cf
from . import tlcrun
from .tlcrun import run_tlc, write_ndjson, read_ndjson, TlcError, VERIF, WORK

PY = "/venv/bin/python"
NPROC = int(os.environ.get("VERIF_NPROC", "16"))


class Machinery(Exception):
    """Failure of the verification machinery itself (exit 2, never a VIOLATION)."""


SPEC_DIR = os.path.join(VERIF, "spec")


class Ctx:
    def __init__(self, pid, tier, seed):
        self.pid, self.tier, self.seed = pid, tier, seed
        self.repo = os.environ.get("MINGUS_REPO", "/repo")
        self.t0 = time.time()
        self.rng = random.Random(seed)
        self.states = 0
        self.transitions = 0
        self.tlc_runs = []
        self.cases = []          # all executed cases (dicts with cid)
        self.records = []        # all validated records
        self.passes = {}         # order passes: key -> (driver, ordered cases, nproc)
        self.pass_ranges = []    # (first cid, last cid + 1, key of the first pass)
        self.rejected = []       # (record, clause, trace_module, driver)
        self.drift = []
        self.bounds = {}
        self.assumptions = []
        self.exhaustive = False
        self.rule = ""
        self.nontrivial = None   # record -> bool
        self.notes = []
        self.behaviours = 0
        self.samples = []
        self.work = tlcrun.workdir("chk_%s" % pid)
        self._tagn = 0
        self.coverage_extra = {}

    def quick(self):
        return self.tier == "quick"

    def tag(self, base):
        self._tagn += 1
        return "%s_%s_%d" % (self.pid, base, self._tagn)

    def log(self, *a):
        print("[%s %6.1fs]" % (self.pid, time.time() - self.t0), *a, flush=True)

    # ---- (a) model checking the specification -------------------------------------------
    def mc(self, module, cfg=None, workers=8, expect_violation=None, timeout=3000, env=None, **kw):
        """Model-check the spec. Any violated invariant is a defect of the SPEC (machinery)
        unless expect_violation names it (used for implementation-shaped models that are
        expected to exhibit a known defect as a counterexample)."""
        try:
            r = run_tlc(module, cfg, workers=workers, tag=self.tag(module), check=False, timeout=timeout, env=env, **kw)
        except TlcError as e:
            raise Machinery(str(e))
        self.tlc_runs.append({"role": "model-check", "module": module, "cfg": r.cfg, "generated": r.generated,
                              "distinct": r.distinct, "depth": r.depth, "wall_s": r.wall_s,
                              "violated": r.violated})
        self.states += r.distinct
        self.transitions += r.generated
        if expect_violation:
            if r.violated != expect_violation:
                raise Machinery("model %s/%s: expected counterexample for %s, got %s\n%s" %
                                (module, r.cfg, expect_violation, r.violated, r.stdout[-3000:]))
        elif r.rc != 0 or r.violated:
            raise Machinery("specification check failed: %s/%s rc=%s violated=%s\n%s" %
                            (module, r.cfg, r.rc, r.violated, r.stdout[-3000:]))
        self.log("mc %s/%s: %d states, %d transitions, %.1fs" % (module, r.cfg, r.distinct, r.generated, r.wall_s))
        return r

    # ---- (b) generation -----------------------------------------------------------------
    def gen(self, module, cfg=None, env=None, workers=1, timeout=3000, **kw):
        out = os.path.join(self.work, self.tag("gen") + ".ndjson")
        e = {"OUT": out}
        e.update(env or {})
        try:
            r = run_tlc(module, cfg, workers=workers, tag=self.tag(module), env=e, timeout=timeout, **kw)
        except TlcError as ex:
            raise Machinery(str(ex))
        cases = read_ndjson(out)
        self.tlc_runs.append({"role": "generate", "module": module, "cfg": r.cfg, "generated": r.generated,
                              "distinct": r.distinct, "cases": len(cases), "wall_s": r.wall_s})
        self.states += r.distinct
        self.transitions += r.generated
        self.log("gen %s/%s: %d cases, %.1fs" % (module, r.cfg, len(cases), r.wall_s))
        return cases

    def gen_printed(self, module, cfg=None, env=None, workers=1, timeout=3000, prefix="@@", parallel=1, sample=None, **kw):
        """Generator that prints one JSON document per line with a prefix (from PrintT).
        parallel=k runs k single-worker TLC simulations with seeds seed, seed+1, ... (reproducible) and concatenates."""
        if parallel > 1 and kw.get("simulate"):
            import re as _re
            num = int(_re.search(r"num=(\d+)", kw["simulate"]).group(1))
            per = (num + parallel - 1) // parallel
            base_seed = kw.get("seed", self.seed)
            def one(i):
                k2 = dict(kw, simulate="num=%d" % per, seed=base_seed * 1000 + i)
                return run_tlc(module, cfg, workers=1, tag=self.tag(module), env=env, timeout=timeout, xmx="2g", **k2)
            try:
                with cf.ThreadPoolExecutor(max_workers=parallel) as ex:
                    rs = list(ex.map(one, range(parallel)))
            except TlcError as ex2:
                raise Machinery(str(ex2))
            cases = []
            for r in rs:
                for line in r.stdout.splitlines():
                    line = line.strip()
                    if line.startswith('"' + prefix):
                        cases.append(json.loads(json.loads(line)[len(prefix):]))
            self.tlc_runs.append({"role": "generate", "module": module, "cfg": rs[0].cfg, "parallel": parallel,
                                  "cases": len(cases), "wall_s": max(r.wall_s for r in rs)})
            self.log("gen %s/%s x%d: %d cases, %.1fs" % (module, rs[0].cfg, parallel, len(cases), max(r.wall_s for r in rs)))
            return cases
        try:
            r = run_tlc(module, cfg, workers=workers, tag=self.tag(module), env=env, timeout=timeout, **kw)
        except TlcError as ex:
            raise Machinery(str(ex))
        lines = sorted(l.strip() for l in r.stdout.splitlines() if l.lstrip().startswith('"' + prefix))
        r["stdout"] = ""
        total = len(lines)
        if sample is not None and total > sample:      # reproducible sample taken before parsing (memory)
            lines = self.rng.sample(lines, sample)
        cases = []
        for line in lines:
            s = json.loads(line)  # TLC prints a TLA+ string with escapes compatible with JSON
            cases.append(json.loads(s[len(prefix):]))
        del lines
        self.tlc_runs.append({"role": "generate", "module": module, "cfg": r.cfg, "generated": r.generated,
                              "distinct": r.distinct, "cases": len(cases), "of": total, "wall_s": r.wall_s})
        self.states += r.distinct
        self.transitions += r.generated
        self.log("gen %s/%s: %d cases, %.1fs" % (module, r.cfg, len(cases), r.wall_s))
        return cases

    # ---- (b') unbounded-integer obligations discharged by Apalache (symbolic; complements TLC's bounded enumeration) ----
    def apalache(self, module, obligations, timeout=300):
        """obligations: list of (name, [args], expect) with expect in ("NoError", "Error").  A tool that cannot run is recorded
        as skipped (it never decides a verdict about the code); an unexpected outcome is a machinery failure (the model is wrong)."""
        import shutil as _sh
        res = []
        d = os.path.join(SPEC_DIR, "apalache")
        if _sh.which("apalache-mc") is None:
            self.notes.append("apalache-mc not on PATH: obligations %s skipped" % [o[0] for o in obligations])
            return res
        for name, args, expect in obligations:
            out = os.path.join(self.work, self.tag("apa"))
            t0 = time.time()
            try:
                p = subprocess.run(["apalache-mc", "check"] + args + ["--out-dir=" + out, module + ".tla"], cwd=d, stdout=subprocess.PIPE,
                                   stderr=subprocess.STDOUT, text=True, timeout=timeout)
                txt = p.stdout
            except subprocess.TimeoutExpired:
                self.notes.append("apalache obligation %s timed out after %ds (skipped)" % (name, timeout))
                continue
            finally:
                shutil.rmtree(out, ignore_errors=True)
            got = "NoError" if "The outcome is: NoError" in txt else "Error" if "The outcome is: Error" in txt else "unknown"
            res.append({"role": "apalache", "obligation": name, "module": module, "args": args, "outcome": got, "expected": expect, "wall_s": round(time.time() - t0, 1)})
            self.tlc_runs.append(res[-1])
            self.log("apalache %s/%s: %s (%.1fs)" % (module, name, got, time.time() - t0))
            if got == "unknown":
                self.notes.append("apalache obligation %s gave no verdict (skipped): %s" % (name, txt[-300:].replace("\n", " ")))
            elif got != expect:
                raise Machinery("apalache obligation %s on %s: outcome %s, expected %s\n%s" % (name, module, got, expect, txt[-1500:]))
        return res

    # ---- (c) execution against the real code ----------------------------------------------
    def execute(self, driver, cases, nproc=None, timeout=3000, fresh_label="exec", orders=1):
        """Run cases through harness.worker in parallel subprocesses. Returns records (with cid).

        orders=k > 1: the same cases are executed again, k - 1 times, in fresh workers, in a seeded shuffled order and with a
        different split over workers (different neighbours, different predecessors): a library that remembers things between calls
        answers some case differently.  Only the cases whose recorded lines differ from the first pass are handed on (identical
        lines get the identical verdict); they are tagged with the pass so that a rejection can be reproduced in that order."""
        base = len(self.cases)
        for i, c in enumerate(cases):
            c["cid"] = base + i
            c["_drv"] = driver
        self.cases.extend(cases)
        key1 = "%s#%d#1" % (driver, base)
        self.passes[key1] = (driver, list(cases), nproc)
        self.pass_ranges.append((base, base + len(cases), key1))
        recs = self._execute_raw(driver, cases, nproc, timeout, fresh_label)
        if orders > 1 and len(cases) > 1:
            def strip(r):
                return json.dumps({k: v for k, v in r.items() if k != "_x"}, sort_keys=True)
            first = {}
            for r in recs:
                first.setdefault(r["cid"], []).append(strip(r))
            extra = []
            for k in range(2, orders + 1):
                perm = list(cases)
                random.Random(self.seed * 7919 + k).shuffle(perm)
                np2 = max(1, (nproc or NPROC) // 2 + k)
                recs2 = self._execute_raw(driver, perm, np2, timeout, "%s_o%d" % (fresh_label, k), warm=True)
                key = "%s#%d#%d" % (driver, base, k)
                self.passes[key] = (driver, perm, np2)
                again = {}
                for r in recs2:
                    again.setdefault(r["cid"], []).append(r)
                ndiff = 0
                for cid, rs in again.items():
                    if [strip(r) for r in rs] != first.get(cid):
                        ndiff += 1
                        for r in rs:
                            r.setdefault("_x", {})["pass"] = key
                        extra.extend(rs)
                self.coverage_extra["order_passes"] = self.coverage_extra.get("order_passes", 0) + 1
                self.coverage_extra["cases_answered_differently_in_another_order"] = self.coverage_extra.get("cases_answered_differently_in_another_order", 0) + ndiff
                self.log("order pass %d: %d of %d cases recorded differently" % (k, ndiff, len(cases)))
            recs = recs + extra
            recs.sort(key=lambda r: r["cid"])
        return recs

    def pass_of_cid(self, cid):
        for lo, hi, key in self.pass_ranges:
            if lo <= cid < hi:
                return key
        return None

    def sequence_before(self, key, cid):
        """cids executed by the same worker up to and including cid, in order (what that interpreter had done)."""
        drv, perm, np_ = self.passes[key]
        np_ = max(1, min(np_ or NPROC, (len(perm) + 49) // 50 or 1))
        for j in range(np_):
            chunk = [c["cid"] for c in perm[j::np_]]
            if cid in chunk:
                return chunk[:chunk.index(cid) + 1]
        return [cid]

    def _execute_raw(self, driver, cases, nproc=None, timeout=3000, label="exec", warm=False):
        nproc = max(1, min(nproc or NPROC, (len(cases) + 49) // 50 or 1))
        chunks = [cases[i::nproc] for i in range(nproc)]
        tag = self.tag(label)
        procs = []
        env = dict(os.environ)
        env.update(PYTHONHASHSEED="0", MINGUS_REPO=self.repo, MINGUS_VERIF="1", PYTHONDONTWRITEBYTECODE="1",
                   VERIF_SEED=str(self.seed), VERIF_TIER=self.tier, VERIF_WARMUP="1" if warm else "0")
        for k, ch in enumerate(chunks):
            cin = os.path.join(self.work, "%s_%d.in.ndjson" % (tag, k))
            cout = os.path.join(self.work, "%s_%d.out.ndjson" % (tag, k))
            write_ndjson(cin, ch)
            p = subprocess.Popen([PY, "-m", "harness.worker", driver, cin, cout], cwd=VERIF, env=env,
                                 stdout=subprocess.PIPE, stderr=subprocess.STDOUT, text=True)
            procs.append((p, cin, cout))
        recs = []
        for p, cin, cout in procs:
            try:
                so, _ = p.communicate(timeout=timeout)
            except subprocess.TimeoutExpired:
                p.kill()
                raise Machinery("replay worker timeout (%s)" % driver)
            if p.returncode != 0:
                raise Machinery("replay worker failed (%s):\n%s" % (driver, so[-3000:]))
            recs.extend(read_ndjson(cout))
            os.remove(cin)
            os.remove(cout)
        recs.sort(key=lambda r: r["cid"])
        self.log("executed %d cases -> %d records (%s)" % (len(cases), len(recs), driver))
        return recs

    # ---- (d) validation by TLC --------------------------------------------------------------
    def _validate_raw(self, module, records, cfg=None, shard=40000, env=None, timeout=3000):
        if not records:
            return []
        # shard only at case boundaries (a behaviour must not be split across validators)
        shards, cur = [], []
        for r in records:
            if len(cur) >= shard and cur[-1].get("cid") != r.get("cid"):
                shards.append(cur)
                cur = []
            cur.append(r)
        if cur:
            shards.append(cur)
        jobs = []
        for k, sh in enumerate(shards):
            tag = self.tag("val")
            tr = os.path.join(self.work, tag + ".trace.ndjson")
            out = os.path.join(self.work, tag + ".bad.ndjson")
            write_ndjson(tr, [{kk: vv for kk, vv in r.items() if kk != "_x"} for r in sh])
            e = {"TRACE": tr, "OUT": out}
            e.update(env or {})
            jobs.append((k, tag, tr, out, e))

        def one(job):
            k, tag, tr, out, e = job
            r = run_tlc(module, cfg, workers=1, tag=tag, env=e, timeout=timeout, check=False, xmx="3g")
            return job, r

        bad = []
        with cf.ThreadPoolExecutor(max_workers=min(len(jobs), max(1, NPROC // 2))) as ex:
            for job, r in ex.map(one, jobs):
                k, tag, tr, out, e = job
                if r.rc != 0:
                    i = r.stdout.find("Error:")
                    raise Machinery("trace validation failed to run: %s rc=%s\n%s\n...\n%s" % (module, r.rc, r.stdout[max(0, i):i + 2500], r.stdout[-1500:]))
                res = read_ndjson(out)
                if not res or res[0].get("n") != len(shards[k]):
                    raise Machinery("trace validation did not consume the whole trace (%s)\n%s" % (module, r.stdout[-2000:]))
                self.states += r.distinct
                self.transitions += r.generated
                self.tlc_runs.append({"role": "validate", "module": module, "cfg": r.cfg, "lines": len(shards[k]),
                                      "generated": r.generated, "distinct": r.distinct, "rejected": res[0]["nbad"],
                                      "wall_s": r.wall_s})
                for l, clause in res[1:]:
                    if clause.startswith("DRIFT:"):     # implementation-shaped model vs code: information only
                        if len(self.drift) < 20:
                            self.drift.append("%s: %s" % (clause[6:], json.dumps(_shorten(shards[k][l - 1], 300))))
                        self.coverage_extra["model_drift_lines"] = self.coverage_extra.get("model_drift_lines", 0) + 1
                        continue
                    bad.append((shards[k][l - 1], clause))
                if res[0]["nbad"] > len(res) - 1:
                    self.notes.append("%d further rejected lines beyond the reporting cap" % (res[0]["nbad"] - len(res) + 1))
                os.remove(tr)
                if os.path.exists(out):
                    os.remove(out)
        return bad

    def validate_drift(self, module, records, cfg=None, **kw):
        """Validate against a MODEL (implementation-shaped) spec: mismatches are MODEL-DRIFT information only."""
        bad = self._validate_raw(module, records, cfg, **kw)
        for rec, clause in bad[:20]:
            self.drift.append("%s: %s" % (clause, json.dumps(_shorten(rec, 300))))
        self.coverage_extra.setdefault("model_conformance", {})[module] = {"lines": len(records), "drift": len(bad)}
        self.log("model conformance %s: %d lines, %d drift" % (module, len(records), len(bad)))
        return bad

    def validate(self, module, records, driver=None, cfg=None, **kw):
        every = int(os.environ.get("VERIF_CORRUPT", "0") or 0)
        if every:
            # binding demonstration: one observed field of every k-th record is altered before validation;
            # the walk must reject (nearly) all of them.  Nothing here is used by a registered check.
            hit = corrupt_records(records, every, self.rng)
            bad = self._validate_raw(module, records, cfg, **kw)
            rej = {id(r) for r, _ in bad}
            b = self.binding = getattr(self, "binding", {"corrupted": 0, "rejected": 0, "missed": []})
            for r, path in hit:
                b["corrupted"] += 1
                if id(r) in rej:
                    b["rejected"] += 1
                elif len(b["missed"]) < 12:
                    b["missed"].append("%s %s" % (r.get("op"), path))
            self.binding_false = getattr(self, "binding_false", 0) + sum(1 for r, _ in bad if "_x" not in r or not r["_x"].get("corrupted"))
            return bad
        bad = self._validate_raw(module, records, cfg, **kw)
        self.records_count = getattr(self, "records_count", 0) + len(records)
        # keep light-weight statistics, not the records themselves
        seen = getattr(self, "_seen", None)
        if seen is None:
            seen = self._seen = set()
            self._nontriv = 0
        for r in records:
            key = hashlib.blake2b(json.dumps([r.get("op"), r.get("in"), r.get("obs")], sort_keys=True).encode(), digest_size=8).digest()
            if key not in seen:
                seen.add(key)
                if self.nontrivial is None or self.nontrivial(r):
                    self._nontriv += 1
        if records and len(self.samples) < 6:
            idx = sorted({0, len(records) // 3, (2 * len(records)) // 3, len(records) - 1})
            for i in idx[:2 if len(self.samples) >= 2 else 4]:
                self.samples.append(_shorten(records[i]))
        for rec, clause in bad:
            self.rejected.append({"record": rec, "clause": clause, "module": module, "driver": driver, "cfg": cfg, "env": kw.get("env")})
        self.log("validated %d records with %s: %d rejected" % (len(records), module, len(bad)))
        return bad


OBSERVED_KEYS = ("out", "obs", "ret", "events", "observer", "bytes", "msgs", "others", "after")


def _leaves(v, path, acc):
    if isinstance(v, bool) or isinstance(v, int) or (isinstance(v, str) and len(v) >= 1):
        acc.append(path)
    elif isinstance(v, list):
        for i, x in enumerate(v):
            _leaves(x, path + [i], acc)
    elif isinstance(v, dict):
        for k, x in v.items():
            _leaves(x, path + [k], acc)


def corrupt_records(records, every, rng):
    """Alter one observed leaf (bool flipped, int + 1, character replaced) in every k-th record, in place."""
    hit = []
    for idx, r in enumerate(records):
        if idx % every:
            continue
        acc = []
        for k in OBSERVED_KEYS:
            if k in r and not (k == "out" and r.get("ok") is False):     # the result of a call that raised is not an observation
                _leaves(r[k], [k], acc)
        if not acc:
            continue
        path = rng.choice(acc)
        cur = r
        for part in path[:-1]:
            cur = cur[part]
        v = cur[path[-1]]
        if isinstance(v, bool):
            cur[path[-1]] = not v
        elif isinstance(v, int):
            cur[path[-1]] = v + 1
        else:
            cur[path[-1]] = ("b" if v[0] == "#" else "#") + v[1:] if v[0] in "#b" else ("D" if v[0] == "C" else "C") + v[1:]
        r.setdefault("_x", {})["corrupted"] = path
        hit.append((r, "/".join(map(str, path))))
    return hit


def _shorten(r, lim=600):
    s = json.dumps(r, separators=(",", ":"))
    if len(s) <= lim:
        return r
    return {"op": r.get("op"), "truncated": s[:lim]}


# ---- known findings ---------------------------------------------------------------------
def load_findings(pid=""):
    if pid.startswith("X"):   # extension checks (beyond the 20 listed properties) keep their own list
        p = os.path.join(VERIF, "ext_findings.json")
        return json.load(open(p)) if os.path.exists(p) else []
    return _load_findings()


def _load_findings():
    p = os.path.join(VERIF, "known_findings.json")
    if not os.path.exists(p):
        return []
    return json.load(open(p))


def _get(rec, path):
    cur = rec
    for part in path.split("."):
        if isinstance(cur, dict) and part in cur:
            cur = cur[part]
        elif isinstance(cur, list) and part.lstrip("-").isdigit() and -len(cur) <= int(part) < len(cur):
            cur = cur[int(part)]
        else:
            return _MISSING
    return cur


_MISSING = object()


def _cond(val, spec):
    if isinstance(spec, dict) and len(spec) == 1:
        (k, v), = spec.items()
        if k == "in":
            return val in v
        if k == "ge":
            return isinstance(val, int) and val >= v
        if k == "le":
            return isinstance(val, int) and val <= v
        if k == "len_ge":
            return hasattr(val, "__len__") and len(val) >= v
        if k == "contains":
            return hasattr(val, "__contains__") and v in val
        if k == "has_both":   # sequence contains both items
            return all(x in val for x in v)
        if k == "text_in":
            return isinstance(val, list) and "".join(map(str, val)) in v
        if k == "ne":
            return val != v
    return val == spec


def finding_matches(f, pid, rej):
    if f.get("status") != "known" or f.get("property") != pid:
        return False
    key = f["key"]
    if key.get("clause") not in (None, rej["clause"]) and not (isinstance(key.get("clause"), list) and rej["clause"] in key["clause"]):
        return False
    rec = rej["record"]
    ops = key.get("op")
    if ops is not None and rec.get("op") != ops and not (isinstance(ops, list) and rec.get("op") in ops):
        return False
    for path, spec in (key.get("when") or {}).items():
        v = _get(rec, path)
        if v is _MISSING or not _cond(v, spec):
            return False
    return True


# ---- finishing: classify, reproduce, evidence, exit code -----------------------------------
def finish(ctx, level_note_assumptions=()):
    findings = load_findings(ctx.pid)
    ext = ctx.pid.startswith("X")
    matched = {}
    unmatched = []
    for rej in ctx.rejected:
        f = next((f for f in findings if finding_matches(f, ctx.pid, rej)), None)
        if f:
            matched.setdefault(f["id"], [f, 0])[1] += 1
        else:
            unmatched.append(rej)
    violations = []
    if unmatched:
        # re-execute the violating cases once in a fresh interpreter and re-validate
        by_group = {}
        for rej in unmatched:
            by_group.setdefault((rej["driver"], rej["module"], rej["cfg"], json.dumps(rej.get("env"), sort_keys=True)), []).append(rej)
        for (driver, module, cfg, envs), rejs in by_group.items():
            cids = sorted({r["record"]["cid"] for r in rejs})[:200]
            cases = [c for c in ctx.cases if c["cid"] in set(cids)]
            if driver is None or not cases or getattr(ctx, "is_replay", False):     # a replay IS the re-execution
                violations.extend(rejs)
                continue
            venv = json.loads(envs) if envs != "null" else None
            recs = ctx._execute_raw(driver, cases, nproc=1, label="reexec")
            bad2 = ctx._validate_raw(module, recs, cfg, env=venv)
            reproduced = {rec["cid"] for rec, _ in bad2}
            # seen only in a second pass: the same cases alone, in an interpreter prepared as the second pass prepares it
            # (library warmed up, names handed over as instances of a subclass of str)
            second = [r["record"]["cid"] for r in rejs if r["record"]["cid"] not in reproduced
                      and str(r["record"].get("_x", {}).get("pass") or ctx.pass_of_cid(r["record"]["cid"])).endswith("#2")]
            if second:
                recs = ctx._execute_raw(driver, [c for c in cases if c["cid"] in set(second)], nproc=1, label="reexec_warm", warm=True)
                badw = ctx._validate_raw(module, recs, cfg, env=venv)
                for rec, clause in badw:
                    rec.setdefault("_x", {})["warm"] = True
                bad2 = bad2 + badw
                reproduced |= {rec["cid"] for rec, _ in badw}
            # what does not reproduce on its own may depend on what the interpreter did before: re-run the pass it was seen in,
            # in the same order and the same split over workers (deterministic), and keep the cases in question
            left = [r for r in rejs if r["record"]["cid"] not in reproduced]
            by_pass = {}
            for r in left:
                pk = r["record"].get("_x", {}).get("pass") or ctx.pass_of_cid(r["record"]["cid"])
                if pk in ctx.passes:
                    by_pass.setdefault(pk, set()).add(r["record"]["cid"])
            for pk, want in sorted(by_pass.items()):
                pdrv, perm, np2 = ctx.passes[pk]
                want = set(sorted(want)[:200])
                recs3 = [r for r in ctx._execute_raw(pdrv, perm, np2, label="reexec_order", warm=pk.endswith("#2")) if r["cid"] in want]
                bad3 = ctx._validate_raw(module, recs3, cfg, env=venv)
                for rec, clause in bad3:
                    rec.setdefault("_x", {})["pass"] = pk
                    rec["_x"]["order_dependent"] = True
                bad2 = bad2 + bad3
            still = []
            for rec, clause in bad2:
                rej2 = {"record": rec, "clause": clause, "module": module, "driver": driver, "cfg": cfg}
                if not any(finding_matches(f, ctx.pid, rej2) for f in findings):
                    still.append(rej2)
            if not still:
                raise Machinery("rejections did not reproduce on re-execution (%s): %s" %
                                (module, json.dumps(_shorten(rejs[0]["record"]))))
            violations.extend(still)
    replay_path = None
    if not violations:
        stale = os.path.join(os.environ.get("VERIF_REPLAY_DIR", os.path.join(VERIF, "replays")), "%s_%s_seed%d.json" % (ctx.pid, ctx.tier, ctx.seed))
        if os.path.exists(stale):
            os.remove(stale)
    if violations:
        rdir = os.environ.get("VERIF_REPLAY_DIR", os.path.join(VERIF, "replays"))
        os.makedirs(rdir, exist_ok=True)
        replay_path = os.path.join(rdir, "%s_%s_seed%d.json" % (ctx.pid, ctx.tier, ctx.seed))
        cids = []
        for v in violations:
            if v["record"]["cid"] not in cids:
                cids.append(v["record"]["cid"])
        cids = cids[:50]
        doc = {"property": ctx.pid, "tier": ctx.tier, "seed": ctx.seed,
               "cases": [c for c in ctx.cases if c["cid"] in set(cids)],
               "rejected": [{"clause": v["clause"], "module": v["module"], "driver": v["driver"], "cfg": v["cfg"],
                             "warm": bool(v["record"].get("_x", {}).get("warm")), "record": v["record"]} for v in violations[:50]],
               "n_rejected_total": len(violations)}
        # a violation that shows only after what the interpreter did before: the replay carries that whole sequence of cases
        seqs = []
        bycid = {c["cid"]: c for c in ctx.cases}
        for v in violations:
            x = v["record"].get("_x", {})
            if x.get("order_dependent") and len(seqs) < 3:
                order = ctx.sequence_before(x["pass"], v["record"]["cid"])
                seqs.append({"driver": v["driver"], "module": v["module"], "cfg": v["cfg"], "for_cid": v["record"]["cid"], "warm": str(x["pass"]).endswith("#2"),
                             "cases": [bycid[c] for c in order if c in bycid]})
        if seqs:
            doc["sequences"] = seqs
            doc["note"] = "order-dependent: the rejected lines reproduce when the cases of a sequence are executed in that order in one interpreter"
        json.dump(doc, open(replay_path, "w"), indent=1)
    for fid, (f, n) in sorted(matched.items()):
        print("%s: %s=%s %s [%s, %d rejected lines]" % ("KNOWN-DEVIATION" if ext else "KNOWN-FINDING", "extension" if ext else "property", ctx.pid, f["summary"], fid, n))
    for f in findings:
        if f.get("status") == "known" and f.get("property") == ctx.pid and f["id"] not in matched \
                and ctx.tier in f.get("tiers", ["quick", "thorough"]):
            print("STALE-FINDING (information): %s matched nothing in this run: %s" % (f["id"], f["summary"]))
    for d in ctx.drift[:20]:
        print("MODEL-DRIFT (information):", d)
    write_evidence(ctx, violations, matched)
    if violations:
        clauses = {}
        for v in violations:
            clauses[v["clause"]] = clauses.get(v["clause"], 0) + 1
        print("rejected clauses:", json.dumps(clauses))
        for v in violations[:5]:
            print("  e.g.", json.dumps(_shorten(v["record"], 400)), "clause=", v["clause"])
        print(("DEVIATION extension=%s replay=%s" if ext else "VIOLATION property=%s replay=%s") % (ctx.pid, replay_path))
        return 1
    print("OK " + ("extension" if ext else "property") + "=%s tier=%s seed=%d: %d records validated, %d cases, states=%d, known findings matched=%d, wall=%.1fs" %
          (ctx.pid, ctx.tier, ctx.seed, getattr(ctx, "records_count", 0), len(ctx.cases), ctx.states, len(matched),
           time.time() - ctx.t0))
    return 0


def write_evidence(ctx, violations, matched):
    n_cases = len(ctx.cases)
    cov = {
        "states": ctx.states,
        "transitions": ctx.transitions,
        "traces_validated_against_impl": ctx.behaviours or n_cases,
        "samples": ctx.samples[:6] or ["(no records)"],
        "evaluations": getattr(ctx, "records_count", 0),
        "distinct_nontrivial": getattr(ctx, "_nontriv", 0),
        "rule": ctx.rule,
        "exhaustive": bool(ctx.exhaustive),
        "bounds": ctx.bounds,
        "tlc_runs": ctx.tlc_runs,
        "known_findings_matched": {k: v[1] for k, v in matched.items()},
        "rejected_lines": len(ctx.rejected),
        "notes": ctx.notes,
        "repo": ctx.repo,
    }
    cov.update(ctx.coverage_extra)
    ev = {"property_id": ctx.pid, "tier": ctx.tier, "seed": ctx.seed, "level": "model_checking",
          "coverage": cov,
          "assumptions": ctx.assumptions + [
              "TLC 1.8 / tla2tools, CommunityModules and OpenJDK 17 are correct",
              "the TLA+ specification under /verif/spec is the oracle (written from the property statement)",
              "harness projections (object -> abstract state, text -> token list) contain no property logic",
              "bounded domains as listed under coverage.bounds; beyond them only seeded random sampling"],
          "wall_s": round(time.time() - ctx.t0, 2),
          "violations": len(violations)}
    edir = os.environ.get("VERIF_EVIDENCE_DIR", os.path.join(VERIF, "evidence"))
    if ctx.pid.startswith("X"):
        edir = os.path.join(edir, "ext")
    os.makedirs(edir, exist_ok=True)
    p = os.path.join(edir, ctx.pid + ".json")
    tmp = p + ".tmp"
    json.dump(ev, open(tmp, "w"), indent=1)
    os.replace(tmp, p)


def main(argv=None):
    import argparse, importlib
    ap = argparse.ArgumentParser()
    ap.add_argument("pid")
    ap.add_argument("--tier", default=os.environ.get("VERIF_TIER", "quick"))
    ap.add_argument("--replay")
    ap.add_argument("--list-findings", action="store_true")
    a = ap.parse_args(argv)
    if a.tier not in ("quick", "thorough"):
        a.tier = "quick"
    seed = int(os.environ.get("VERIF_SEED", "0") or 0)
    pid = a.pid.upper()
    if a.list_findings:
        for f in load_findings(pid):
            if f["property"] == pid:
                print(f["status"], f["id"], f["summary"], f.get("commit", ""))
        return 0
    ctx = Ctx(pid, a.tier, seed)
    try:
        mod = importlib.import_module("harness.props." + pid.lower())
        if a.replay:
            doc = json.load(open(a.replay))
            ctx.is_replay = True
            groups = {}
            for rj in doc["rejected"]:
                groups.setdefault((rj["driver"], rj["module"], rj["cfg"], bool(rj.get("warm"))), set()).add(rj["record"]["cid"])
            for (driver, module, cfg, warm), cids in groups.items():
                cases = [dict(c) for c in doc["cases"] if c["cid"] in cids]
                ctx.cases.extend(cases)
                recs = ctx._execute_raw(driver, cases, nproc=1, label="replay", warm=warm)
                ctx.validate(module, recs, driver=driver, cfg=cfg)
            for sq in doc.get("sequences", []):
                cases = [dict(c) for c in sq["cases"]]
                ctx.cases.extend(cases)
                recs = ctx._execute_raw(sq["driver"], cases, nproc=1, label="replay_seq", warm=bool(sq.get("warm")))
                ctx.validate(sq["module"], recs, driver=sq["driver"], cfg=sq["cfg"])
            ctx.rule = "replay of " + a.replay
        else:
            mod.run(ctx)
        if os.environ.get("VERIF_CORRUPT"):
            b = getattr(ctx, "binding", {"corrupted": 0, "rejected": 0, "missed": []})
            print("BINDING %s: %d of %d corrupted records rejected (uncorrupted records rejected: %d); not rejected e.g. %s" %
                  (pid, b["rejected"], b["corrupted"], getattr(ctx, "binding_false", 0), "; ".join(b["missed"][:6])))
            return 0
        rc = finish(ctx)
    except Machinery as e:
        print("MACHINERY-FAILURE property=%s: %s" % (pid, e))
        rc = 2
    finally:
        shutil.rmtree(ctx.work, ignore_errors=True)
    return rc


if __name__ == "__main__":
    sys.exit(main())
