#!/bin/sh
# audit/seeds.sh [tier]: re-confirm and re-run every stored seeded change against /repo's HEAD; prints one line each
for d in /verif/seeded/C*; do
  pid=$(basename $d | cut -d- -f1)
  printf "%s " "$(basename $d)"
  chk=$(/venv/bin/python -c "import json;print(json.load(open('$d/meta.json')).get('checked_with','$pid'))")
  /verif/audit/seed.py $pid $d --tier ${1:-quick} --check $chk 2>&1 | tail -1 | cut -c1-220
done
