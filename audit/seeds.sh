#!/bin/bash
# audit/seeds.sh [tier] [par]: re-confirm and re-run every stored seeded change against /repo's HEAD; prints one line each.
# Seeds of one property share a scratch worktree (/tmp/wt/<Cxx>) and run one after the other; properties run [par] at a time.
tier=${1:-quick}; par=${2:-4}
one() {
  pid=$1; tier=$2
  for d in /verif/seeded/$pid-*; do
    chk=$(/venv/bin/python -c "import json;print(json.load(open('$d/meta.json')).get('checked_with','$pid'))")
    ben=$(/venv/bin/python -c "import json;print('--benign' if json.load(open('$d/meta.json')).get('kind')=='benign' else '')")
    r=$(/verif/audit/seed.py $pid $d --tier $tier --check $chk $ben 2>&1 | tail -1 | cut -c1-220)
    echo "$(basename $d) $r"
  done
}
export -f one
ls /verif/seeded | cut -d- -f1 | sort -u | xargs -P $par -I{} bash -c "one {} $tier"
