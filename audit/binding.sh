#!/bin/bash
# audit/binding.sh [every]: binding demonstration - corrupt one observed field in every k-th recorded line of every check
# (quick tier) and report how many corrupted lines the TLC walk rejects.  Writes nothing under /verif/evidence.
k=${1:-5}
for c in C01 C02 C03 C04 C05 C06 C07 C08 C09 C10 C11 C12 C13 C14 C15 C16 C17 C18 C19 C20; do
  VERIF_CORRUPT=$k VERIF_EVIDENCE_DIR=/tmp/binding_ev VERIF_REPLAY_DIR=/tmp/binding_ev VERIF_WORK=/tmp/binding_work_$c /verif/check $c 2>&1 | grep "^BINDING\|MACHINERY" | cut -c1-400
done
rm -rf /tmp/binding_ev /tmp/binding_work_*
