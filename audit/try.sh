#!/bin/sh
# audit/try.sh <Cxx> <patch.diff> [tier]: run the check of <Cxx> against a scratch worktree with the patch applied.
# Uses the scratch worktree /tmp/wt/<Cxx> (created with git worktree add); never touches /repo's working tree.
pid=$1; patch=$2; tier=${3:-quick}
wt=/tmp/wt/$pid
[ -d "$wt" ] || git -C /repo worktree add -q --detach "$wt" HEAD
git -C "$wt" checkout -q --detach "$(git -C /repo rev-parse HEAD)" 2>/dev/null
git -C "$wt" checkout -q -- . 
git -C "$wt" apply "$patch" || { echo "PATCH DOES NOT APPLY"; exit 3; }
mkdir -p /tmp/audit_ev
cd /verif && MINGUS_REPO=$wt VERIF_WORK=/tmp/audit_work_$pid VERIF_EVIDENCE_DIR=/tmp/audit_ev VERIF_REPLAY_DIR=/tmp/audit_ev ./check $pid --tier $tier 2>&1 | tail -${TAILN:-8}
rc=$?
git -C "$wt" checkout -q -- .
rm -rf /tmp/audit_work_$pid
