#!/venv/bin/python
"""Regenerates the generated tables of DESIGN.md (findings, seeded changes) between AUTOGEN markers."""
import json, glob, os, re
V = "/verif"
f = json.load(open(V + "/known_findings.json"))
def esc(s): return s.replace("|", "\\|").replace("\n", " ")
rows = ["| id | property | status | commit | what fails / failed | clause(s) |", "|---|---|---|---|---|---|"]
for x in f:
    cl = x["key"].get("clause"); cl = ", ".join(cl) if isinstance(cl, list) else cl
    summ = re.sub(r"^fixed: property=C\d+ [0-9a-f]+ ", "", x["summary"])
    rows.append("| %s | %s | %s | %s | %s | %s |" % (x["id"], x["property"], x["status"], x.get("commit", ""), esc(summ), cl))
findings = "\n".join(rows)
rows = ["| seeded change | file | clause of the property it breaks (author's words) | what it needs to manifest | rejected clauses reported by the check |", "|---|---|---|---|---|"]
brows = ["| benign change | file | what differs observably, and why the property still holds (author's words) | check |", "|---|---|---|---|"]
for d in sorted(glob.glob(V + "/seeded/C*")):
    m = json.load(open(d + "/meta.json"))
    if m.get("kind") == "benign":
        brows.append("| %s | %s | %s | %s |" % (os.path.basename(d), (m.get("files_changed") or [""])[0].replace("mingus/", ""), esc(m.get("needs_to_manifest", ""))[:330],
                                            "quiet (exit 0)" if m.get("quiet") else "ALARM"))
        continue
    via = "" if m.get("checked_with", m["property"]) == m["property"] else " (by the %s check)" % m["checked_with"]
    rows.append("| %s | %s | %s | %s | %s |" % (os.path.basename(d), (m.get("files_changed") or [""])[0].replace("mingus/", ""), esc(m.get("clause_broken", ""))[:160],
                                         esc(m.get("needs_to_manifest", ""))[:200], ", ".join(sorted(m.get("rejected_clauses", {}).keys())) + via))
seeded = "\n".join(rows)
p = V + "/DESIGN.md"
s = open(p).read()
benign = "\n".join(brows)
for name, body in (("findings", findings), ("seeded", seeded), ("benign", benign)):
    s = re.sub(r"(<!-- AUTOGEN:%s -->\n).*?(<!-- /AUTOGEN -->)" % name, lambda m: m.group(1) + body + "\n" + m.group(2), s, flags=re.S)
open(p, "w").write(s)
print("DESIGN.md tables regenerated")
