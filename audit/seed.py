#!/venv/bin/python
"""audit/seed.py <Cxx> <src_dir(m1..)> [--tier quick] : confirm a candidate seeded change and record it.

Confirms, in the scratch worktree /tmp/wt/<Cxx> (never /repo): (1) the patch applies to /repo's HEAD, (2) the
repository's test-suite still passes with it (190 passed), (3) the demonstration fails with the change and
(4) passes without it; then runs the registered check against the patched scratch tree and records whether it
reports a VIOLATION. Result is stored as /verif/seeded/<Cxx>-<name>/{patch.diff,demo.py,meta.json}.
"""
import sys, os, json, subprocess, shutil, re
pid, src = sys.argv[1], sys.argv[2].rstrip("/")
tier = sys.argv[sys.argv.index("--tier") + 1] if "--tier" in sys.argv else "quick"
chk = sys.argv[sys.argv.index("--check") + 1] if "--check" in sys.argv else pid     # the property whose check is run (default: the seed's own)
name = os.path.basename(src)
benign = "--benign" in sys.argv      # a change under which the property still holds: the check must stay quiet (exit 0)
wt = os.environ.get("VERIF_WT_BASE", "/tmp/wt") + "/" + pid
WORK = "/tmp/audit_work_%s_%d" % (pid, os.getpid())
def sh(cmd, **kw):
    return subprocess.run(cmd, shell=True, stdout=subprocess.PIPE, stderr=subprocess.STDOUT, text=True, **kw)
if not os.path.isdir(wt):
    sh("git -C /repo worktree add -q --detach %s HEAD" % wt)
head = sh("git -C /repo rev-parse HEAD").stdout.strip()
sh("git -C %s checkout -q -- . ; git -C %s checkout -q --detach %s" % (wt, wt, head))
patch = os.path.join(src, "patch.diff"); demo = os.path.join(src, "demo.py")
res = {"property": pid, "name": name, "base_commit": head}
r = sh("cd %s && /venv/bin/python %s" % (wt, demo)); res["demo_passes_without_change"] = r.returncode == 0
r = sh("git -C %s apply %s" % (wt, patch)); res["patch_applies"] = r.returncode == 0
if r.returncode != 0:
    print("PATCH DOES NOT APPLY", r.stdout); sys.exit(3)
r = sh("cd %s && /venv/bin/python -m pytest -q -p no:cacheprovider --timeout=900 --continue-on-collection-errors tests 2>&1 | tail -3" % wt)
m = re.search(r"(\d+) passed", r.stdout); res["tests_passed_with_change"] = int(m.group(1)) if m else 0
res["tests_failed_with_change"] = int(re.search(r"(\d+) failed", r.stdout).group(1)) if re.search(r"(\d+) failed", r.stdout) else 0
r = sh("cd %s && /venv/bin/python %s" % (wt, demo)); res["demo_fails_with_change"] = r.returncode != 0
res["demo_output_with_change"] = r.stdout[-400:]
env = dict(os.environ, MINGUS_REPO=wt, VERIF_WORK=WORK, VERIF_EVIDENCE_DIR="/tmp/audit_ev", VERIF_REPLAY_DIR="/tmp/audit_ev")
r = sh("cd /verif && ./check %s --tier %s" % (chk, tier), env=env)
res["check_cmd"] = "MINGUS_REPO=<scratch worktree with patch> ./check %s --tier %s" % (chk, tier)
res["checked_with"] = chk
res["check_exit"] = r.returncode
res["detected"] = r.returncode == 1 and ("VIOLATION property=%s" % chk) in r.stdout
if benign:
    res["kind"] = "benign"
    res["quiet"] = r.returncode == 0 and "VIOLATION" not in r.stdout
    if not res["quiet"]:
        res["check_output_tail"] = r.stdout[-1500:]
m = re.search(r"rejected clauses: (.*)", r.stdout); res["rejected_clauses"] = json.loads(m.group(1)) if m else {}
sh("git -C %s checkout -q -- ." % wt); shutil.rmtree(WORK, ignore_errors=True)
ok = res["demo_passes_without_change"] and res["demo_fails_with_change"] and res["tests_passed_with_change"] == 190 and res["tests_failed_with_change"] == 0
res["confirmed"] = ok
try:
    am = json.load(open(os.path.join(src, "meta.json")))
except Exception:
    am = {}
res["clause_broken"] = am.get("clause_broken", ""); res["needs_to_manifest"] = am.get("needs_to_manifest", ""); res["files_changed"] = am.get("files_changed", [])
print(json.dumps({k: res[k] for k in ("confirmed", "detected", "quiet", "check_exit", "rejected_clauses", "tests_passed_with_change") if k in res}))
if ok:
    dst = "/verif/seeded/%s" % name if name.startswith(pid + "-") else "/verif/seeded/%s-%s" % (pid, name)
    os.makedirs(dst, exist_ok=True)
    if os.path.abspath(os.path.dirname(patch)) != os.path.abspath(dst):
        shutil.copy(patch, dst); shutil.copy(demo, dst)
    json.dump(res, open(os.path.join(dst, "meta.json"), "w"), indent=1)
else:
    print("NOT CONFIRMED", json.dumps(res)[:1500])
