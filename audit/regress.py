#!/venv/bin/python
"""audit/regress.py [tier]: run every registered check on /repo (4 at a time) and print one line per property."""
import json, subprocess, sys, concurrent.futures as cf, time
tier = sys.argv[1] if len(sys.argv) > 1 else "quick"
m = json.load(open("/verif/MANIFEST.json"))
def one(c):
    t0 = time.time()
    cmd = c["quick_cmd"] if tier == "quick" else c["thorough_cmd"]
    p = subprocess.run(cmd, shell=True, cwd="/verif", stdout=subprocess.PIPE, stderr=subprocess.STDOUT, text=True)
    last = [l for l in p.stdout.splitlines() if l.startswith(("OK ", "VIOLATION", "MACHINERY"))]
    kf = sum(1 for l in p.stdout.splitlines() if l.startswith("KNOWN-FINDING"))
    return c["property_id"], p.returncode, round(time.time() - t0, 1), kf, (last[-1] if last else p.stdout[-300:])
with cf.ThreadPoolExecutor(max_workers=int(sys.argv[2]) if len(sys.argv) > 2 else 4) as ex:
    for fut in cf.as_completed([ex.submit(one, c) for c in m["checks"]]):
        pid, rc, dt, kf, last = fut.result()
        print("%s rc=%d %6.1fs known=%d %s" % (pid, rc, dt, kf, last[:150]), flush=True)
