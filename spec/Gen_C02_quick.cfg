INIT Init
NEXT Next
CONSTANTS K = 5
 KP = 3
