SPECIFICATION Spec
CONSTANTS D = 9
 Small = FALSE
