SPECIFICATION Spec
CONSTANTS D = 9
