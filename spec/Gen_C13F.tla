------------------------------ MODULE Gen_C13F ------------------------------
EXTENDS MC_C13, IOUtils
VARIABLE done
FInit == done = ndJsonSerialize(IOEnv.OUT, SetToSeq(FillCases) \o SetToSeq({[meter |-> c.meter, v |-> c.v, n |-> c.n, placeat |-> TRUE] : c \in PlaceAtCases})) /\ bar = NewBar(<<4,4>>) /\ hist = <<>> /\ ret = TRUE /\ m0 = <<4,4>>
FNext == FALSE /\ done' = done /\ UNCHANGED <<bar, hist, ret, m0>>
=============================================================================
