------------------------------ MODULE Gen_C13F ------------------------------
EXTENDS MC_C13, IOUtils
VARIABLE done
FInit == done = ndJsonSerialize(IOEnv.OUT, SetToSeq(FillCases)) /\ bar = NewBar(<<4,4>>) /\ hist = <<>> /\ ret = TRUE /\ m0 = <<4,4>>
FNext == FALSE /\ done' = done /\ UNCHANGED <<bar, hist, ret, m0>>
=============================================================================
