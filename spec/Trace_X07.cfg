SPECIFICATION Spec
POSTCONDITION Consumed
