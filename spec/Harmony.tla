------------------------------ MODULE Harmony ------------------------------
(* Diatonic harmony: triads/sevenths as stacks of thirds inside a key,        *)
(* function names, numeral aliases, numeral strings, substitution contracts   *)
(* (property C08).                                                             *)
EXTENDS Chords, SequencesExt

\* ---- diatonic chords: stacks of thirds inside the key's notes (degree d = 1..7)
KN(k, i) == KeyNotes(k)[((i - 1) % 7) + 1]
Triad(k, d)   == <<KN(k, d), KN(k, d + 2), KN(k, d + 4)>>
Seventh(k, d) == <<KN(k, d), KN(k, d + 2), KN(k, d + 4), KN(k, d + 6)>>

FunctionNames == <<"tonic", "supertonic", "mediant", "subdominant", "dominant", "submediant", "subtonic">>
Numerals == <<"I", "II", "III", "IV", "V", "VI", "VII">>
LowerNumerals == <<"i", "ii", "iii", "iv", "v", "vi", "vii">>
\* conventional numeral of the diatonic chord on degree d of a MAJOR key
MajorKeyNumeral == <<"I", "ii", "iii", "IV", "V", "vi", "vii">>
DegreeOf(roman) == IF \E d \in 1..7 : Numerals[d] = roman THEN CHOOSE d \in 1..7 : Numerals[d] = roman ELSE 0
DegreeSemis == <<0, 2, 4, 5, 7, 9, 11>>

\* ---- numeral strings as character sequences: accidental prefix, roman numeral, suffix
Str(chars) == FoldLeft(LAMBDA acc, c : acc \o c, "", chars)
UpperRoman(c) == CASE c = "i" -> "I" [] c = "v" -> "V" [] OTHER -> c
PrefixLen(s) == CHOOSE k \in 0..Len(s) : (\A i \in 1..k : s[i] \in AccSet) /\ (k = Len(s) \/ s[k + 1] \notin AccSet)
RomanLen(s, p) == CHOOSE k \in 0..(Len(s) - p) : (\A i \in 1..k : s[p + i] \in {"I", "V", "i", "v"})
                                                /\ (p + k = Len(s) \/ s[p + k + 1] \notin {"I", "V", "i", "v"})
ParseNumeral(s) == LET p == PrefixLen(s) r == RomanLen(s, p) IN
   [acc |-> Cardinality({i \in 1..p : s[i] = "#"}) - Cardinality({i \in 1..p : s[i] = "b"}),
    roman |-> Str([i \in 1..r |-> UpperRoman(s[p + i])]),
    suffix |-> Str(SubSeq(s, p + r + 1, Len(s)))]
WellFormedNumeral(s) == LET t == ParseNumeral(s) IN DegreeOf(t.roman) > 0 /\ t.suffix \in DocumentedShorthands \cup {"", "7"}
\* root of a numeral in semitones above the tonic
NumeralRoot(s) == LET t == ParseNumeral(s) IN Mod12(DegreeSemis[DegreeOf(t.roman)] + t.acc)

\* ---- Law: numeral (degree d, prefix acc, suffix) -> chord in key k
ShiftedBy(orig, r, acc) == Valid(r) /\ Letter(r) = Letter(orig) /\ PC(r) = Mod12(PC(orig) + acc)
LawNumeralChord(k, d, acc, suffix, r) ==
    IF suffix \in {"", "7"}
    THEN LET c == IF suffix = "" THEN Triad(k, d) ELSE Seventh(k, d) IN
         Len(r) = Len(c) /\ \A i \in 1..Len(c) : ShiftedBy(c[i], r[i], acc)
    ELSE LET f == Formula(Meaning(suffix)) root == KN(k, d) IN
         /\ Len(r) = Len(f) + 1
         /\ ShiftedBy(root, r[1], acc)
         /\ \A i \in 1..Len(f) : /\ Valid(r[i + 1])
                                 /\ Letter(r[i + 1]) = ShiftLetter(Letter(root), f[i][1] - 1)
                                 /\ PC(r[i + 1]) = Mod12(PC(root) + f[i][2] + acc)

\* ---- substitution contracts
LP(n) == <<Letter(n), PC(n)>>
TriadOfNumeral(k, s) == LET t == ParseNumeral(s) c == Triad(k, DegreeOf(t.roman)) IN
                          {<<Letter(c[i]), Mod12(PC(c[i]) + t.acc)>> : i \in 1..3}
SharesTwo(k, a, b) == Cardinality(TriadOfNumeral(k, a) \cap TriadOfNumeral(k, b)) >= 2
=============================================================================
