SPECIFICATION Spec
POSTCONDITION Consumed
