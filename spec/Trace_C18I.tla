----------------------------- MODULE Trace_C18I -----------------------------
(* Conformance of the implementation-shaped model: the events the real          *)
(* play_Bars emits must be the events SequencerImpl!ImplPlayBars computes        *)
(* (model = code).  A mismatch is MODEL-DRIFT information, never a violation.    *)
EXTENDS SequencerImpl, TLC, Json, IOUtils
Trace == ndJsonDeserialize(IOEnv.TRACE)
VARIABLES l, bad, nbad
N4(x) == [n |-> x.n, o |-> x.o, ch |-> x.ch, vel |-> x.vel]
Ent(e) == [t |-> e.t, rest |-> e.rest, notes |-> [i \in 1..Len(e.notes) |-> N4(e.notes[i])], bpm |-> e.bpm]
VoiceOfBar(b) == [i \in 1..Len(b.entries) |-> Ent(b.entries[i])]
Evs(xs) == [i \in 1..Len(xs) |-> [k |-> xs[i].k, p |-> xs[i].p, ch |-> xs[i].ch, v |-> xs[i].v]]
SameEvents(a, b) == Len(a) = Len(b) /\ \A i \in 1..Len(a) : a[i].k = b[i].k /\ a[i].ch = b[i].ch /\ a[i].v = b[i].v
                  /\ (IF a[i].k = "sleep" THEN a[i].p - b[i].p \in -3..3 ELSE a[i].p = b[i].p)
Clause(e) ==
  IF e.op # "play_Bars" \/ ~e.ok THEN "ok"
  ELSE LET voices == [i \in 1..Len(e.prog.tracks) |-> VoiceOfBar(e.prog.tracks[i].bars[1])]
           m == e.prog.tracks[1].bars[1].meter
           model == ImplPlayBars(voices, (m[1] * L) \div m[2], e.prog.bpm) IN
       IF SameEvents(Evs(e.events), model.out) /\ e.ret = model.bpm THEN "ok" ELSE "model-of-play_Bars-differs-from-code"
W == INSTANCE Walk
Spec == W!Spec
Consumed == W!Consumed
=============================================================================
