SPECIFICATION MCSpec
CONSTANTS Mode = "mc"
 D = 3
 ValueSet = "small"
 MeterSet = "small"
INVARIANT InvPrefix
INVARIANT InvNeverOverfull
INVARIANT InvFull
PROPERTY PropRefused
