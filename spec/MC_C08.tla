------------------------------ MODULE MC_C08 ------------------------------
EXTENDS Harmony, TLC
VARIABLE call
Init == call = [op |-> "init"]
Next == call.op = "init" /\
  \/ \E k \in AllKeys, d \in 1..7 : call' = [op |-> "diatonic", k |-> k, d |-> d]
  \/ \E s \in {<<"b","V","I","I","m","7">>, <<"I">>, <<"#","#","i","v","d","i","m">>, <<"V","7">>, <<"b","b","b","I","I","I","M","7","+","5">>} :
        call' = [op |-> "parse", s |-> s]
  \/ \E p \in {<<"I","I","I">>, <<"I","V">>, <<"I","I">>, <<"V","I">>, <<"V","I","I">>} :
        call' = [op |-> "harm", a |-> p]
Spec == Init /\ [][Next]_call
Thirds(c) == \A i \in 1..(Len(c) - 1) : Number(c[i], c[i + 1]) = 3
RefSatisfiesLaws ==
  CASE call.op = "diatonic" ->
         /\ Thirds(Triad(call.k, call.d)) /\ Thirds(Seventh(call.k, call.d))
         /\ ToSet(Seventh(call.k, call.d)) \subseteq ToSet(KeyNotes(call.k))
         /\ LawNumeralChord(call.k, call.d, 0, "", Triad(call.k, call.d))
         /\ LawNumeralChord(call.k, call.d, 0, "7", Seventh(call.k, call.d))
         \* in a major key the diatonic triads are major (I IV V), minor (ii iii vi), diminished (vii)
         /\ (~IsMinor(call.k) => LawChord(CASE call.d \in {1,4,5} -> "major triad" [] call.d = 7 -> "diminished triad" [] OTHER -> "minor triad",
                                            KN(call.k, call.d), Triad(call.k, call.d)))
         /\ (~IsMinor(call.k) => LawChord(CASE call.d \in {1,4} -> "major seventh" [] call.d = 5 -> "dominant seventh"
                                               [] call.d = 7 -> "half diminished seventh" [] OTHER -> "minor seventh",
                                            KN(call.k, call.d), Seventh(call.k, call.d)))
    [] call.op = "parse" -> WellFormedNumeral(call.s)
    [] call.op = "harm" -> TRUE
    [] OTHER -> TRUE
\* the documented harmonic substitution pairs really share two notes in every major key
Theorems == /\ \A k \in MajorKeys : /\ SharesTwo(k, <<"I">>, <<"I","I","I">>) /\ SharesTwo(k, <<"I">>, <<"V","I">>)
                                    /\ SharesTwo(k, <<"I","V">>, <<"I","I">>) /\ SharesTwo(k, <<"I","V">>, <<"V","I">>)
                                    /\ SharesTwo(k, <<"V">>, <<"V","I","I">>) /\ ~SharesTwo(k, <<"I">>, <<"I","I">>)
            /\ ParseNumeral(<<"b","V","I","I","m","7">>) = [acc |-> -1, roman |-> "VII", suffix |-> "m7"]
            /\ NumeralRoot(<<"b","V","I","I","M">>) = 10
=============================================================================
