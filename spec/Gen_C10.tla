------------------------------ MODULE Gen_C10 ------------------------------
EXTENDS NoteObj, TLC, Json, IOUtils, SequencesExt
CONSTANTS OMAX
Octs == 0..OMAX
Cases == {[kind |-> "note", n |-> n, o |-> o] : n \in Names(2), o \in Octs} \cup
         {[kind |-> "int", i |-> i] : i \in 0..200} \cup
         {[kind |-> "hz", i |-> i, sp |-> sp] : i \in 0..127, sp \in {415, 430, 440, 442, 466}} \cup
         {[kind |-> "helmholtz", n |-> n, o |-> o] : n \in N35, o \in Octs} \cup
         {[kind |-> "velocity", v |-> v] : v \in -3..131} \cup {[kind |-> "channel", c |-> c] : c \in -3..19} \cup
         {[kind |-> "badname", s |-> s] : s \in {<<"H">>, <<"c">>, <<"C","x">>, <<"C","-","4","-","5">>, <<"1">>, <<"#","C">>, <<"C","#","-","4","-">>, <<"h","-","4">>,
                                                  <<"C","-">>, <<"F","#","-">>, <<"B","b","-">>, <<"-","4">>, <<"C","-","-","1">>, <<"C","-","x">>, <<"C","-","4","x">>}} \cup
         \* a well-formed name with one foreign character put in at any position (front, middle, end) is malformed
         UNION {{[kind |-> "badname", s |-> SubSeq(n, 1, i) \o <<c>> \o SubSeq(n, i + 1, Len(n))] :
                   i \in 0..Len(n), c \in {"\n", " ", "\t", "x", "H", "1", "c", "."}} : n \in {<<"C">>, <<"B","b">>, <<"F","#","#">>}} \cup
         {[kind |-> "tr", n |-> n, o |-> o, sh |-> sh] : n \in N35, o \in Octs, sh \in Shorthands} \cup
         {[kind |-> "octave", n |-> n, o |-> o, diff |-> d] : n \in N35, o \in 0..4, d \in -6..3}
VARIABLE done
Init == done = ndJsonSerialize(IOEnv.OUT, SetToSeq(Cases))
Next == FALSE /\ done' = done
=============================================================================
