----------------------------- MODULE Trace_C04 -----------------------------
EXTENDS Keys, TLC, Json, IOUtils
Trace == ndJsonDeserialize(IOEnv.TRACE)
VARIABLES l, bad, nbad
Raised(e, cls) == ~e.ok /\ e.err = cls
StepOf(op) == CASE op = "second" -> 1 [] op = "third" -> 2 [] op = "fourth" -> 3 [] op = "fifth" -> 4
                [] op = "sixth" -> 5 [] op = "seventh" -> 6
Clause(e) ==
  CASE e.op = "get_key" ->
         IF e.in.i \in Sigs THEN (IF e.ok /\ e.out = <<MajorKey(e.in.i), MinorKey(e.in.i)>> THEN "ok" ELSE "key-lookup")
         ELSE (IF Raised(e, "RangeError") THEN "ok" ELSE "reject-signature-range")
    [] e.op = "is_valid_key" -> IF e.ok /\ e.out = IsKey(e.in.k) THEN "ok" ELSE "key-validity"
    [] e.op = "get_key_signature" ->
         IF IsKey(e.in.k) THEN (IF e.ok /\ e.out = Sig(e.in.k) THEN "ok" ELSE "signature-number")
         ELSE (IF Raised(e, "NoteFormatError") THEN "ok" ELSE "reject-unknown-key")
    [] e.op = "get_key_signature_accidentals" ->
         IF IsKey(e.in.k) THEN (IF e.ok /\ LawSigAccidentals(e.in.k, e.out) THEN "ok" ELSE "signature-accidentals")
         ELSE (IF Raised(e, "NoteFormatError") THEN "ok" ELSE "reject-unknown-key")
    [] e.op = "get_notes" ->      \* out = <<first call, second (memoised) call>>
         IF IsKey(e.in.k) THEN (IF ~e.ok THEN "key-notes"
                                ELSE IF ~LawKeyNotes(e.in.k, e.out[1]) THEN "key-notes"
                                ELSE IF e.out[2] # e.out[1] THEN "key-notes-memo" ELSE "ok")
         ELSE (IF Raised(e, "NoteFormatError") THEN "ok" ELSE "reject-unknown-key")
    [] e.op = "get_notes_after" ->      \* get_notes(k2) asked right after get_notes(k1) in a fresh interpreter
         IF e.ok /\ LawKeyNotes(e.in.k2, e.out) THEN "ok" ELSE "key-notes-after-another-key"
    [] e.op = "relative_major" ->
         IF IsKey(e.in.k) /\ IsMinor(e.in.k) THEN (IF e.ok /\ e.out = MajorKey(Sig(e.in.k)) THEN "ok" ELSE "relative-major")
         ELSE (IF Raised(e, "NoteFormatError") THEN "ok" ELSE "reject-unknown-key")
    [] e.op = "relative_minor" ->
         IF IsKey(e.in.k) /\ ~IsMinor(e.in.k) THEN (IF e.ok /\ e.out = MinorKey(Sig(e.in.k)) THEN "ok" ELSE "relative-minor")
         ELSE (IF Raised(e, "NoteFormatError") THEN "ok" ELSE "reject-unknown-key")
    [] e.op = "Key" ->
         IF IsKey(e.in.k)
         THEN (IF ~e.ok THEN "key-object"
               ELSE IF ~LawKeyName(e.in.k, e.out.name) THEN "key-object-name"
               ELSE IF e.out.mode # (IF IsMinor(e.in.k) THEN "minor" ELSE "major") THEN "key-object-mode"
               ELSE IF e.out.signature # Sig(e.in.k) THEN "key-object-signature"
               ELSE IF e.out.key # e.in.k THEN "key-object" ELSE "ok")
         ELSE (IF Raised(e, "NoteFormatError") THEN "ok" ELSE "reject-unknown-key")
    [] e.op \in {"second", "third", "fourth", "fifth", "sixth", "seventh"} ->
         IF e.ok /\ LawDiatonic(e.in.k, e.in.n, StepOf(e.op), e.out) THEN "ok" ELSE "diatonic-step"
    [] e.op = "interval" ->
         IF e.ok /\ LawDiatonic(e.in.k, e.in.n, e.in.i, e.out) THEN "ok" ELSE "diatonic-step"
    [] OTHER -> "unknown-op"
W == INSTANCE Walk
Spec == W!Spec
Consumed == W!Consumed
=============================================================================
