----------------------------- MODULE BarQueries -----------------------------
(* Extension X07: the questions a bar answers about its content and the edit *)
(* of one entry's value, on top of the bar machine of property C13 (Bar.tla). *)
(*   range      - the lowest and the highest sounding note of the bar         *)
(*   note names - each name once, in order of first appearance                *)
(*   value left - the note value whose length is the space left               *)
(*   chords     - per entry, its start and what its container is recognised as *)
(*   change of a value - the entry keeps its start, the entries after it move *)
(*                by the difference, nothing else changes                     *)
(* Rests carry no notes: they contribute nothing to range, names and chords.  *)
EXTENDS Bar

SoundingNotes(b) == LET F(acc, e) == IF e.c.rest THEN acc ELSE acc \o e.c.notes IN FoldLeft(F, <<>>, b.entries)
PitchSet(b) == {NumOf(SoundingNotes(b)[i]) : i \in 1..Len(SoundingNotes(b))}
Lowest(b) == CHOOSE p \in PitchSet(b) : \A q \in PitchSet(b) : p <= q
Highest(b) == CHOOSE p \in PitchSet(b) : \A q \in PitchSet(b) : p >= q
NoteNames(b) == UniqueNames(SoundingNotes(b))
\* a plain (undotted, power-of-two) value is what the edit accepts; anything else leaves the bar as it is
PlainValue(v) == v.d = 0 /\ v.r = <<1, 1>>
ChangeValue(b, i, v) ==
    IF ~PlainValue(v) \/ i \notin 1..Len(b.entries) THEN b
    ELSE LET old == b.entries[i].t new == Ticks(v) IN
         [b EXCEPT !.entries = [j \in 1..Len(b.entries) |->
              IF j < i THEN b.entries[j]
              ELSE IF j = i THEN [b.entries[j] EXCEPT !.t = new]
              ELSE [b.entries[j] EXCEPT !.at = @ - (old - new)]]]
Emptied(b) == [b EXCEPT !.entries = <<>>]
=============================================================================
