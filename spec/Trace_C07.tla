----------------------------- MODULE Trace_C07 -----------------------------
EXTENDS Chords, TLC, Json, IOUtils
Trace == ndJsonDeserialize(IOEnv.TRACE)
VARIABLES l, bad, nbad
Known == DocumentedShorthands \cup {"M11"}
\* long entry g and short entry s talk about the same chord
SameEntry(s, g) == IF s.poly \/ g.poly THEN s.poly /\ g.poly /\ s.text = g.text
                   ELSE g.root = s.root /\ s.sh \in Known /\ g.meaning = Meaning(s.sh)
Shape(o) == /\ o.sok /\ o.lok /\ Len(o.short) = Len(o.long)
            /\ \A i \in 1..Len(o.short) : SameEntry(o.short[i], o.long[i])
Accepted(o) == \A i \in 1..Len(o.short) : o.short[i].built /\
                  (IF o.short[i].poly THEN \A h \in ToSet(o.short[i].halves) : h.sh \in Known ELSE o.short[i].sh \in Known)
Inverts(e) == \E i \in 1..Len(e.out.short) :
                 LET s == e.out.short[i] IN
                 /\ ~s.poly /\ s.built /\ s.chord = e.in.base
                 /\ i <= Len(e.out.long)
                 /\ LET g == e.out.long[i] IN ~g.poly /\ g.root = s.root /\ s.sh \in Known
                                              /\ g.meaning = Meaning(s.sh) /\ g.ord = Ordinal(e.in.k)
Clause(e) ==
  CASE e.op = "determine" ->
         IF ~e.out.sok THEN "short-form-raised"
         ELSE IF ~e.out.lok THEN "long-form-raised"
         ELSE IF ~Shape(e.out) THEN "forms-differ"
         ELSE IF ~Accepted(e.out) THEN "name-not-constructible"
         ELSE IF e.in.kind = "chord" /\ ~Inverts(e) THEN "not-recognised"
         ELSE IF e.in.kind = "triple" /\ ~(\A i \in 1..Len(e.out.short) : ToSet(e.in.chord) \subseteq ToSet(e.out.short[i].chord))
              THEN "three-note-soundness"
         ELSE "ok"
    [] e.op = "small" ->
         IF ~e.ok THEN "trivial-answers"
         ELSE IF Len(e.in.chord) = 0 THEN (IF e.out.r = <<>> THEN "ok" ELSE "trivial-answers")
         ELSE IF Len(e.in.chord) = 1 THEN (IF e.out.r = <<e.in.chord[1]>> THEN "ok" ELSE "trivial-answers")
         ELSE (IF Len(e.out.r) = 1 /\ e.out.r[1] = e.out.interval THEN "ok" ELSE "trivial-answers")
    [] OTHER -> "unknown-op"
W == INSTANCE Walk
Spec == W!Spec
Consumed == W!Consumed
=============================================================================
