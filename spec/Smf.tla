--------------------------------- MODULE Smf ---------------------------------
(* An independent Standard MIDI File reader as a TLA+ automaton over the byte   *)
(* sequence (properties C16, C17).  One step per header / chunk header / event. *)
(* The file is a constant-level operator argument `B` (sequence of 0..255).     *)
EXTENDS Naturals, Integers, Sequences, FiniteSets

At(B, i) == IF i >= 1 /\ i <= Len(B) THEN B[i] ELSE -1
U16(B, i) == At(B, i) * 256 + At(B, i + 1)
\* 32-bit big-endian; -1 when it would not fit 31 bits or runs off the file
U32(B, i) == IF At(B, i) # 0 \/ At(B, i + 3) < 0 THEN -1 ELSE At(B, i + 1) * 65536 + At(B, i + 2) * 256 + At(B, i + 3)
IsTag(B, i, t) == At(B, i) = t[1] /\ At(B, i + 1) = t[2] /\ At(B, i + 2) = t[3] /\ At(B, i + 3) = t[4]
MThd == <<77, 84, 104, 100>>
MTrk == <<77, 84, 114, 107>>

\* variable-length quantity starting at i: <<value, number of bytes>> or <<-1, 0>> when malformed (1..4 bytes)
VlqAt(B, i) ==
    IF At(B, i) < 0 THEN <<-1, 0>>
    ELSE IF At(B, i) < 128 THEN <<At(B, i), 1>>
    ELSE IF At(B, i + 1) < 0 THEN <<-1, 0>>
    ELSE IF At(B, i + 1) < 128 THEN <<(At(B, i) - 128) * 128 + At(B, i + 1), 2>>
    ELSE IF At(B, i + 2) < 0 THEN <<-1, 0>>
    ELSE IF At(B, i + 2) < 128 THEN <<((At(B, i) - 128) * 128 + (At(B, i + 1) - 128)) * 128 + At(B, i + 2), 3>>
    ELSE IF At(B, i + 3) < 0 \/ At(B, i + 3) >= 128 THEN <<-1, 0>>
    ELSE <<(((At(B, i) - 128) * 128 + (At(B, i + 1) - 128)) * 128 + (At(B, i + 2) - 128)) * 128 + At(B, i + 3), 4>>

\* header: <<ok, format, declared tracks, division>>
Header(B) == IF IsTag(B, 1, MThd) /\ U32(B, 5) = 6 /\ Len(B) >= 14
             THEN [ok |-> TRUE, format |-> U16(B, 9), ntrks |-> U16(B, 11), division |-> U16(B, 13)]
             ELSE [ok |-> FALSE, format |-> -1, ntrks |-> -1, division |-> -1]

Ev6(tick, k, a, b, c, txt) == [tick |-> tick, k |-> k, a |-> a, b |-> b, c |-> c, txt |-> txt]
Signed8(x) == IF x >= 128 THEN x - 256 ELSE x

\* one event at position i (after chunk header), given the running status and the tick so far:
\* [ok, err, next (position after the event), status (new running status), ev (decoded event), eot]
NoEv == Ev6(0, "none", 0, 0, 0, <<>>)
Bad(msg) == [ok |-> FALSE, err |-> msg, next |-> 0, status |-> 0, ev |-> NoEv, eot |-> FALSE]
EventAt(B, i, running, tick, chunkEnd) ==
    LET d == VlqAt(B, i) IN
    IF d[1] < 0 THEN Bad("smf-delta-time")
    ELSE LET t == tick + d[1] p == i + d[2] s0 == At(B, p) IN
    IF s0 < 0 \/ p > chunkEnd THEN Bad("smf-event-runs-past-chunk")
    ELSE IF s0 = 255 THEN        \* meta event: type, length (VLQ), data
         LET ty == At(B, p + 1) ln == VlqAt(B, p + 2) IN
         IF ty < 0 \/ ln[1] < 0 THEN Bad("smf-meta-event")
         ELSE LET data == p + 2 + ln[2] last == data + ln[1] - 1 IN
         IF last > chunkEnd THEN Bad("smf-event-runs-past-chunk")
         ELSE IF ty = 47 THEN (IF ln[1] = 0 /\ last = chunkEnd
                               THEN [ok |-> TRUE, err |-> "", next |-> last + 1, status |-> 0, ev |-> Ev6(t, "eot", 0, 0, 0, <<>>), eot |-> TRUE]
                               ELSE Bad("smf-end-of-track-not-at-chunk-end"))
         ELSE IF ty = 81 THEN (IF ln[1] = 3
                               THEN [ok |-> TRUE, err |-> "", next |-> last + 1, status |-> 0,
                                     ev |-> Ev6(t, "tempo", At(B, data) * 65536 + At(B, data + 1) * 256 + At(B, data + 2), 0, 0, <<>>), eot |-> FALSE]
                               ELSE Bad("smf-meta-event"))
         ELSE IF ty = 88 THEN (IF ln[1] = 4
                               THEN [ok |-> TRUE, err |-> "", next |-> last + 1, status |-> 0, ev |-> Ev6(t, "meter", At(B, data), At(B, data + 1), 0, <<>>), eot |-> FALSE]
                               ELSE Bad("smf-meta-event"))
         ELSE IF ty = 89 THEN (IF ln[1] = 2
                               THEN [ok |-> TRUE, err |-> "", next |-> last + 1, status |-> 0, ev |-> Ev6(t, "key", Signed8(At(B, data)), At(B, data + 1), 0, <<>>), eot |-> FALSE]
                               ELSE Bad("smf-meta-event"))
         ELSE IF ty = 3 THEN [ok |-> TRUE, err |-> "", next |-> last + 1, status |-> 0,
                              ev |-> Ev6(t, "name", 0, 0, 0, [j \in 1..ln[1] |-> At(B, data + j - 1)]), eot |-> FALSE]
         ELSE [ok |-> TRUE, err |-> "", next |-> last + 1, status |-> 0, ev |-> Ev6(t, "meta", ty, ln[1], 0, <<>>), eot |-> FALSE]
    ELSE IF s0 >= 240 THEN Bad("smf-unsupported-status")
    ELSE LET st == IF s0 >= 128 THEN s0 ELSE running
             dp == IF s0 >= 128 THEN p + 1 ELSE p IN          \* data position (running status re-uses the previous status)
         IF st < 128 THEN Bad("smf-data-byte-without-status")
         ELSE LET hi == st \div 16 ch == st % 16 two == hi \in {8, 9, 10, 11, 14}
                  d1 == At(B, dp) d2 == IF two THEN At(B, dp + 1) ELSE 0
                  last == IF two THEN dp + 1 ELSE dp IN
              IF d1 < 0 \/ d1 >= 128 \/ d2 < 0 \/ d2 >= 128 THEN Bad("smf-channel-event-data")
              ELSE IF last > chunkEnd THEN Bad("smf-event-runs-past-chunk")
              ELSE [ok |-> TRUE, err |-> "", next |-> last + 1, status |-> st, eot |-> FALSE,
                    ev |-> CASE hi = 9 -> Ev6(t, "on", ch, d1, d2, <<>>) [] hi = 8 -> Ev6(t, "off", ch, d1, d2, <<>>)
                             [] hi = 11 -> Ev6(t, "cc", ch, d1, d2, <<>>) [] hi = 12 -> Ev6(t, "pc", ch, d1, 0, <<>>)
                             [] OTHER -> Ev6(t, "chan", ch, hi, d1, <<>>)]
=============================================================================
