SPECIFICATION Spec
POSTCONDITION Consumed
