SPECIFICATION Spec
CONSTANTS D = 3
 Emitting = TRUE
