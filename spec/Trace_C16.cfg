SPECIFICATION Spec
POSTCONDITION Consumed
