------------------------------ MODULE Gen_C06 ------------------------------
EXTENDS Chords, TLC, Json, IOUtils, SequencesExt
CONSTANTS SlashRoots, PolyShorthands, PolyRoots, AliasRoots
Q_SlashRoots == {<<"C">>, <<"B","b">>}
Q_AliasRoots == {<<"C">>, <<"A">>, <<"E","b">>, <<"F","#">>, <<"D","b","b">>}
Q_PolyShorthands == {"", "m", "7", "m7", "M7", "dim", "6/9", "sus4", "5", "hendrix"}
Q_PolyRoots == {<<"C">>, <<"E">>, <<"G">>, <<"A">>, <<"B","b">>, <<"F","#">>}
T_SlashRoots == {<<"C">>, <<"B","b">>, <<"F","#">>, <<"G","b","b">>, <<"A","#","#">>, <<"E">>}
T_AliasRoots == {<<"C">>, <<"A">>, <<"E","b">>, <<"F","#">>, <<"D","b","b">>, <<"B">>, <<"G","#","#">>, <<"D">>, <<"A","b">>, <<"C","#">>}
T_PolyShorthands == {"", "m", "7", "m7", "M7", "dim", "6/9", "sus4", "5", "hendrix", "aug", "m6", "9", "m/M7", "dim7", "13", "sus2", "7b5", "11", "M9"}
T_PolyRoots == {<<"C">>, <<"E">>, <<"G">>, <<"A">>, <<"B","b">>, <<"F","#">>, <<"D">>, <<"E","b">>, <<"B">>, <<"A","b">>, <<"C","#">>, <<"F">>}
\* alias spellings: min / mi / - for a leading m, maj / ma for M (leading, or after the slash of m/M7)
MRest(s) == CASE s = "m" -> "" [] s = "m7" -> "7" [] s = "m7+" -> "7+" [] s = "m7b5" -> "7b5" [] s = "m6" -> "6"
              [] s = "m9" -> "9" [] s = "m11" -> "11" [] s = "m13" -> "13"
MKeys == {"m", "m7", "m7+", "m7b5", "m6", "m9", "m11", "m13"}
BigMRest(s) == CASE s = "M" -> "" [] s = "M7+5" -> "7+5" [] s = "M7+" -> "7+" [] s = "M7" -> "7" [] s = "M6" -> "6"
                 [] s = "M9" -> "9" [] s = "M13" -> "13" [] s = "M11" -> "11"
BigMKeys == {"M", "M7+5", "M7+", "M7", "M6", "M9", "M13", "M11"}
AliasPairs == {<<s, a \o MRest(s)>> : s \in MKeys, a \in {"min", "mi", "-"}} \cup
              {<<s, a \o BigMRest(s)>> : s \in BigMKeys, a \in {"maj", "ma"}} \cup
              {<<"m/M7", a \o "/" \o b \o "7">> : a \in {"m", "min", "mi", "-"}, b \in {"M", "maj", "ma"}} \cup
              {<<"mM7", a \o b \o "7">> : a \in {"m", "min", "mi", "-"}, b \in {"M", "maj", "ma"}}
BadBasses == {<<"H">>, <<"c">>, <<"G","x">>, <<"8">>, <<"E","m">>, <<"b">>, <<"G","\n">>, <<"E","b","\n">>, <<"G"," ">>, <<" ","G">>, <<"\n","G">>}
\* a documented shorthand with white space before or after it is not a documented shorthand
Whites == {"\n", " ", "\t", "\n\n"}
UnknownSuffixes == {"x", "7sus", "sus9", "M8", "+x", "dm", "77", "5x", "/", "|", "m/", "hendri", "NC", "dom"} \cup
                   {s \o w : s \in {"", "m7", "dim7", "M", "7b5", "6/9"}, w \in Whites} \cup {w \o s : s \in {"m7", "M", "sus4"}, w \in Whites}
BadRootStrings == {<<"H","m">>, <<"c">>, <<"1">>, <<"#","C">>, <<"x","7">>, <<"|","C">>, <<"/","G">>, <<"h","e","n","d","r","i","x">>}
Cases ==
  {[kind |-> "chord", root |-> r, sh |-> s, spelled |-> s] : r \in N35, s \in DocumentedShorthands} \cup
  {[kind |-> "chord", root |-> r, sh |-> p[1], spelled |-> p[2]] : r \in AliasRoots, p \in AliasPairs} \cup
  {[kind |-> "slash", root |-> r, sh |-> s, bass |-> b] : r \in SlashRoots, s \in DocumentedShorthands, b \in N35 \cup BadBasses} \cup
  {[kind |-> "poly", x |-> [root |-> rx, sh |-> sx], y |-> [root |-> ry, sh |-> sy]] :
        rx \in PolyRoots, ry \in PolyRoots, sx \in PolyShorthands, sy \in PolyShorthands} \cup
  {[kind |-> "malformed", root |-> r, suffix |-> s] : r \in {<<"C">>, <<"B","b">>, <<"F","#","#">>}, s \in UnknownSuffixes} \cup
  {[kind |-> "badroot", s |-> s] : s \in BadRootStrings} \cup
  {[kind |-> "nc", text |-> s] : s \in {"NC", "N.C."}} \cup
  {[kind |-> "tables"]} \cup {[kind |-> "samemeaning", root |-> r] : r \in N21}
VARIABLE done
Init == done = ndJsonSerialize(IOEnv.OUT, SetToSeq(Cases))
Next == FALSE /\ done' = done
=============================================================================
