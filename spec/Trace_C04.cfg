SPECIFICATION Spec
POSTCONDITION Consumed
