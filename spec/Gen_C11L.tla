------------------------------ MODULE Gen_C11L ------------------------------
(* Sequences of lifting steps (transpose / augment / diminish at track, bar    *)
(* or container level) to be applied to TLC-generated tracks.                  *)
EXTENDS NoteObj, TLC, Json
CONSTANTS D
VARIABLE hist
InDom == {sh \in Shorthands : SizeInDomain(sh)}
Steps == {[op |-> "transpose", level |-> lv, sh |-> sh, up |-> up, pos |-> p] : lv \in {"track", "bar", "container"}, sh \in InDom, up \in BOOLEAN, p \in 0..3} \cup
         {[op |-> o, level |-> lv, sh |-> <<"1">>, up |-> TRUE, pos |-> p] : o \in {"augment", "diminish"}, lv \in {"track", "bar", "container"}, p \in 0..3}
Init == hist = <<>>
Next == \E s \in Steps : Len(hist) < D /\ hist' = Append(hist, s) /\ (Len(hist') = D => PrintT("@@" \o ToJson([steps |-> hist'])))
Spec == Init /\ [][Next]_hist
=============================================================================
