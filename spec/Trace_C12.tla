----------------------------- MODULE Trace_C12 -----------------------------
(* Trace validation for the NoteContainer machine: every logged step must be   *)
(* the step the specification takes from the current spec state.               *)
EXTENDS NoteContainer, Harmony, TLC, Json, IOUtils
Trace == ndJsonDeserialize(IOEnv.TRACE)
VARIABLES l, st, bad, nbad
Obs(line) == [i \in 1..Len(line.obs) |-> [n |-> line.obs[i].n, o |-> line.obs[i].o]]
Mutators == {"empty", "add_note_obj", "add_bare", "add_name_oct", "add_list", "plus_list", "add_container",
             "plus_container", "remove_name", "remove_name_oct", "remove_obj", "remove_list", "minus_list"}
Items(xs) == [i \in 1..Len(xs) |-> [t |-> xs[i].t, n |-> xs[i].n, o |-> xs[i].o]]
Notes(xs) == [i \in 1..Len(xs) |-> [n |-> xs[i].n, o |-> xs[i].o]]
Act(line) == CASE line.op \in {"add_list", "plus_list", "remove_list", "minus_list"} -> [op |-> line.op, items |-> Items(line.in.items)]
               [] line.op \in {"add_container", "plus_container"} -> [op |-> line.op, notes |-> Notes(line.in.notes)]
               [] line.op = "empty" -> [op |-> "empty"]
               [] line.op \in {"add_bare", "remove_name"} -> [op |-> line.op, n |-> line.in.n]
               [] OTHER -> [op |-> line.op, n |-> line.in.n, o |-> line.in.o]
Ascending(nc) == \A i \in 1..(Len(nc) - 1) : NumOf(nc[i + 1]) > NumOf(nc[i]) /\ NumOf(nc[i + 1]) - NumOf(nc[i]) < 12
NamesOf(nc) == [i \in 1..Len(nc) |-> nc[i].n]
\* names of a chord in order with pitch duplicates of earlier notes dropped (they are not added to a container)
Clause(s, line) ==
  CASE line.op = "new" -> IF line.ok /\ Obs(line) = <<>> THEN "ok" ELSE "new-container-empty"
    [] line.op \in Mutators ->
         LET exp == Apply(s, Act(line)) obs == Obs(line) IN
         IF ~line.ok THEN "operation-raised"
         ELSE IF ~Sorted(obs) THEN "sorted-duplicate-free"
         ELSE IF Pitches(obs) # Pitches(exp) THEN "set-model"
         ELSE IF obs # exp THEN "content"
         ELSE IF \E i \in 1..Len(line.others) : Notes(line.others[i].now) # Notes(line.others[i].built) THEN "argument-container-changed"
         ELSE IF line.op = "add_bare" /\ ~VoicingOk(s, line.in.n) THEN "voicing"
         ELSE "ok"
    [] line.op = "query" ->
         LET o == line.out IN
         IF ~line.ok THEN "query-raised"
         ELSE IF o.len # Len(s) THEN "length"
         ELSE IF o.names # UniqueNames(s) THEN "unique-names"
         ELSE IF \E i \in 1..Len(o.probes) : o.probes[i].r # HasPitch(s, NumOf([n |-> o.probes[i].n, o |-> o.probes[i].o])) THEN "membership"
         ELSE IF \E i \in 1..Len(o.eqs) : o.eqs[i].r # (Pitches(Notes(o.eqs[i].other)) = Pitches(s) /\ Len(o.eqs[i].other) = Len(s)) THEN "equality"
         ELSE IF o.cons # <<NcConsonant(s, TRUE), NcConsonant(s, FALSE)>> THEN "consonant-every-pair"
         ELSE IF o.perf # <<NcPerfect(s, TRUE), NcPerfect(s, FALSE)>> THEN "perfect-consonant-every-pair"
         ELSE IF o.imperf # NcImperfect(s) THEN "imperfect-consonant-every-pair"
         ELSE IF o.diss # <<~NcConsonant(s, TRUE), ~NcConsonant(s, FALSE)>> THEN "dissonant-is-not-consonant"
         ELSE IF o.diss # <<NcAllDissonant(s, FALSE), NcAllDissonant(s, TRUE)>> THEN "dissonant-every-pair"
         ELSE "ok"
    [] line.op = "from_chord_shorthand" ->
         LET obs == Obs(line) IN
         IF ~line.ok THEN "shorthand-constructor"
         ELSE IF Len(obs) = 0 \/ obs[1] # [n |-> line.in.root, o |-> 4] THEN "constructor-root-octave-4"
         ELSE IF ~Ascending(obs) THEN "constructor-ascends"
         ELSE IF ~LawChord(Meaning(line.in.sh), line.in.root, NamesOf(obs)) THEN "constructor-chord-order" ELSE "ok"
    [] line.op = "from_interval_shorthand" ->
         LET obs == Obs(line) a == [n |-> line.in.n, o |-> 4] IN
         IF ~SizeInDomain(line.in.sh) THEN "ok"
         ELSE IF ~line.ok THEN "shorthand-constructor"
         ELSE IF ShSize(line.in.sh) = 0 THEN (IF obs = <<a>> THEN "ok" ELSE "constructor-interval")
         ELSE IF Len(obs) = 2 /\ obs[1] = a /\ LawTranspose(a, line.in.sh, TRUE, obs[2]) THEN "ok" ELSE "constructor-interval"
    [] line.op = "from_progression_shorthand" ->
         LET obs == Obs(line) t == ParseNumeral(line.in.prog) IN
         IF ~line.ok THEN "shorthand-constructor"
         ELSE IF Len(obs) = 0 \/ obs[1].o # 4 THEN "constructor-root-octave-4"
         ELSE IF ~Ascending(obs) THEN "constructor-ascends"
         ELSE IF ~LawNumeralChord(line.in.k, DegreeOf(t.roman), t.acc, t.suffix, NamesOf(obs)) THEN "constructor-chord-order" ELSE "ok"
    [] OTHER -> "unknown-op"
NextState(s, line) == IF line.op \in Mutators \cup {"new"} THEN Obs(line) ELSE s
InitState == <<>>
W == INSTANCE WalkS
Spec == W!Spec
Consumed == W!Consumed
=============================================================================
