INIT Init
NEXT Next
CONSTANTS
 Notes <- Q_Notes
 Steps <- Q_Steps
