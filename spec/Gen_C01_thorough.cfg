INIT Init
NEXT Next
CONSTANTS K = 10
 KP = 5
 M = 4
