------------------------------ MODULE MC_C16I ------------------------------
(* The implementation-shaped MIDI writer refines the denotational semantics:    *)
(* for every small program (rests in every position, chords, optional MIDI       *)
(* instrument, tempo-changing container, repeats) the notes and per-bar metas    *)
(* it emits are the ones the program denotes, paired and at the right ticks.     *)
EXTENDS MidiWriterImpl, Smf, TLC
VARIABLE call
Init == call = [op |-> "init"]
Q == [b |-> 4, d |-> 0, r |-> <<1,1>>]
TQ == L \div 4
Nt(ch, o) == [n |-> <<"C">>, o |-> o, ch |-> ch, vel |-> 64]
En(kind, bpm) == CASE kind = "r" -> [t |-> TQ, rest |-> TRUE, notes |-> <<>>, bpm |-> 0]
                   [] kind = "n" -> [t |-> TQ, rest |-> FALSE, notes |-> <<Nt(1, 4)>>, bpm |-> bpm]
                   [] kind = "c" -> [t |-> TQ \div 2, rest |-> FALSE, notes |-> <<Nt(1, 4), Nt(2, 5)>>, bpm |-> bpm]
Kinds == {"r", "n", "c"}
Next == call.op = "init" /\ \E k1 \in Kinds, k2 \in Kinds, k3 \in Kinds, midi \in BOOLEAN, bpmAt \in 0..3, rep \in 0..1 :
    call' = [op |-> "prog", rep |-> rep,
             tr |-> [name |-> <<65>>, instr |-> IF midi THEN [kind |-> "midi", nr |-> 7] ELSE [kind |-> "none", nr |-> 0],
                     bars |-> <<[key |-> <<"e","b">>, meter |-> <<3,4>>, entries |-> <<En(k1, IF bpmAt = 1 THEN 90 ELSE 0), En(k2, IF bpmAt = 2 THEN 90 ELSE 0)>>],
                                [key |-> <<"C">>, meter |-> <<4,4>>, entries |-> <<En(k3, IF bpmAt = 3 THEN 90 ELSE 0)>>]>>]]
Spec == Init /\ [][Next]_call
Never == FALSE
IsMeterOrKey(e) == e.k \in {"meter", "key"}
Refines == call.op = "prog" =>
    LET out == WriteTrack(call.tr, 120, call.rep) exp == ExpectedTrack(call.tr, call.rep) IN
    /\ SameBag(Filter(out, IsNote), Filter(exp, IsNote))
    /\ SameBag(Filter(out, IsMeterOrKey), Filter(exp, IsMeterOrKey))
    /\ Paired(out, {})
    /\ \A i \in 1..(Len(out) - 1) : out[i].tick <= out[i + 1].tick
=============================================================================
