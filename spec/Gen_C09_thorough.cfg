INIT Init
NEXT Next
CONSTANTS UMAX = 3000
