SPECIFICATION MCSpec
CONSTANTS Mode = "mc"
 D = 4
 ValueSet = "small"
 MeterSet = "large"
INVARIANT InvPrefix
INVARIANT InvNeverOverfull
INVARIANT InvFull
PROPERTY PropRefused
