SPECIFICATION Spec
CONSTANT Equal = FALSE
INVARIANT ImplRefinesIdeal
