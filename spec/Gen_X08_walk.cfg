SPECIFICATION Spec
CONSTANTS D = 7
 Emitting = TRUE
