SPECIFICATION Spec
CONSTANTS MaxLen = 2
 Emitting = TRUE
