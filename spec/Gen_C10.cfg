INIT Init
NEXT Next
CONSTANTS OMAX = 9
