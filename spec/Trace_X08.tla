----------------------------- MODULE Trace_X08 -----------------------------
(* Extension X08: registrations in the real tuning registry (in a name space  *)
(* of their own) and the answers of get_instruments / get_tunings / get_tuning *)
(* after each, against Registry.tla.                                            *)
EXTENDS Registry, TLC, Json, IOUtils
Trace == ndJsonDeserialize(IOEnv.TRACE)
VARIABLES l, st, bad, nbad
T(a) == [id |-> a.id, strings |-> a.strings, courses |-> a.courses]
Ids(ts) == [k \in 1..Len(ts) |-> ts[k].id]
Clause(s0, line) ==
    LET s == IF line.first THEN Empty ELSE s0
        exp == Add(s, line.in.instr, line.in.descr, T(line.in)) IN
    IF ~line.ok THEN "registration-raised"
    ELSE IF line.instruments # Displays(exp) THEN "instruments-first-display-name-sorted"
    ELSE IF \E k \in 1..Len(line.lists) : LET q == line.lists[k] IN ~q.ok \/ q.ids # Ids(TuningsOf(exp, q.search, q.ns, q.nc)) THEN "tunings-listed"
    ELSE IF \E k \in 1..Len(line.firsts) : LET q == line.firsts[k] IN ~q.ok \/ q.ids # Ids(FirstTuning(exp, q.search, q.descr, q.ns, q.nc)) THEN "first-tuning"
    ELSE "ok"
\* the state is carried by the specification (the registry shows only answers); a rejected line leaves the model state as computed
NextState(s0, line) == Add(IF line.first THEN Empty ELSE s0, line.in.instr, line.in.descr, T(line.in))
InitState == Empty
W == INSTANCE WalkS
Spec == W!Spec
Consumed == W!Consumed
=============================================================================
