----------------------------- MODULE Trace_X05 -----------------------------
(* Extension X05: the real lookup on the real table (passed in the trace, in milli-Hz)  *)
(* answers Index and leaves the memory the machine of LogIndex.tla leaves.               *)
EXTENDS LogIndex, TLC, Json, IOUtils
Trace == ndJsonDeserialize(IOEnv.TRACE)
VARIABLES l, st, bad, nbad
\* st = [T (function 0..N), mem]
TableOf(line) == [i \in 0..N |-> line.table[i + 1]]
Clause(s0, line) ==
    LET T == IF line.first THEN TableOf(line) ELSE s0.T
        mem == IF line.first THEN NoMem ELSE s0.mem
        r == Lookup(T, mem, line.in.f) IN
    IF line.first /\ (Len(line.table) # N + 1 \/ \E i \in 0..(N - 1) : T[i] >= T[i + 1] \/ T[0] <= 0) THEN "table-strictly-increasing"
    ELSE IF ~line.ok THEN "lookup-raised"
    ELSE IF line.out # Index(T, line.in.f) THEN "answer-is-the-index"
    ELSE IF line.out # r[1] THEN "machine-answer"
    ELSE IF <<line.mem[1], line.mem[2]>> # r[2] THEN "DRIFT:remembered-pair"
    ELSE "ok"
NextState(s0, line) == [T |-> IF line.first THEN TableOf(line) ELSE s0.T, mem |-> <<line.mem[1], line.mem[2]>>]
InitState == [T |-> [i \in 0..N |-> i + 1], mem |-> NoMem]
W == INSTANCE WalkS
Spec == W!Spec
Consumed == W!Consumed
=============================================================================
