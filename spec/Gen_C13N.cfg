INIT NInit
NEXT NNext
CONSTANTS Mode = "mc"
 D = 1
 ValueSet = "full"
 MeterSet = "small"
