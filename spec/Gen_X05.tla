------------------------------- MODULE Gen_X05 -------------------------------
(* Lookup sequences for the real table: (slot, offset) pairs; offset -2..2 = -1 Hz, -0.001 Hz, exact, +0.001 Hz, +1 Hz; slot -1 = zero / negative *)
EXTENDS Naturals, Integers, Sequences, TLC, Json
CONSTANTS D, Small
VARIABLE hist
Slots == IF Small THEN {-1, 0, 57, 127, 128} ELSE {-1, 0, 1, 57, 58, 126, 127, 128}
Asks == {<<s, o>> : s \in Slots, o \in {-2, -1, 0, 1, 2}}
Init == hist = <<>>
Next == Len(hist) < D /\ \E a \in Asks : hist' = Append(hist, a) /\ (Len(hist') = D => PrintT("@@" \o ToJson([seq |-> hist'])))
Spec == Init /\ [][Next]_hist
=============================================================================
