SPECIFICATION Spec
CONSTANTS Keys = {"C", "G", "e"}
 ByReference = TRUE
INVARIANT AnswersNeverChange
