SPECIFICATION GSpec
CONSTANTS MaxLen = 6
 Emit = FALSE
 Mode = "hist"
 D = 30
