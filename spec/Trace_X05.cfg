SPECIFICATION Spec
CONSTANTS N = 128
 Guarded = TRUE
POSTCONDITION Consumed
