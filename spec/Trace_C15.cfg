SPECIFICATION Spec
POSTCONDITION Consumed
