--------------------------- MODULE MidiWriterImpl ---------------------------
(* Implementation-shaped model of mingus.midi.MidiTrack: a PENDING delta time    *)
(* that is written in front of every event until it is set again (an event does  *)
(* not consume it), the accumulated rest `delay`, and the change-instrument flag. *)
(* TLC checks that this machine refines the denotational semantics of MidiSem     *)
(* (MC_C16I), and trace validation checks that the event sequence decoded from    *)
(* the real writer's bytes is exactly the sequence this machine emits.            *)
EXTENDS MidiSem

W0(bpm) == [tick |-> 0, delta |-> 0, delay |-> 0, chg |-> FALSE, instr |-> 1, out |-> <<>>]
\* an event is written with the pending delta in front; the delta stays pending
Emit(w, k, a, b, c) == [w EXCEPT !.out = Append(@, Ev(w.tick + w.delta, k, a, b, c)), !.tick = w.tick + w.delta]
EmitTxt(w, k, txt) == [w EXCEPT !.out = Append(@, [tick |-> w.tick, k |-> k, a |-> 0, b |-> 0, c |-> 0, txt |-> txt])]   \* name event: literal delta 0
SetDelta(w, d) == [w EXCEPT !.delta = d]
\* design switch (overridden in MC_C16I_old.cfg): the repaired writer zeroes the pending delta after the bank select
ZeroDeltaAfterBank == TRUE
SetInstrument(w, ch, nr) == LET w1 == Emit(w, "cc", ch, 0, 1) IN Emit(IF ZeroDeltaAfterBank THEN SetDelta(w1, 0) ELSE w1, "pc", ch, nr, 0)
PlayNote(w, n) == LET w1 == IF w.chg THEN [SetInstrument(w, n.ch, w.instr) EXCEPT !.chg = FALSE] ELSE w IN
                  Emit(w1, "on", n.ch, MidiPitch(n), n.vel)
StopNote(w, n) == Emit(w, "off", n.ch, MidiPitch(n), n.vel)
PlayNC(w, ns) == IF Len(ns) <= 1 THEN FoldLeft(PlayNote, w, ns)
                 ELSE FoldLeft(PlayNote, SetDelta(PlayNote(w, ns[1]), 0), Tail(ns))
StopNC(w, ns) == IF Len(ns) <= 1 THEN FoldLeft(StopNote, w, ns)
                 ELSE FoldLeft(StopNote, SetDelta(StopNote(w, ns[1]), 0), Tail(ns))
PlayEntry(w, e) ==
    LET t == EntryTicks(e.t) IN
    IF e.rest \/ e.notes = <<>> THEN [w EXCEPT !.delay = @ + t]
    ELSE LET w1 == [SetDelta(w, w.delay) EXCEPT !.delay = 0]
             w2 == IF e.bpm > 0 THEN SetDelta(Emit(w1, "tempo", TempoValue(e.bpm), 0, 0), 0) ELSE w1 IN
         StopNC(SetDelta(PlayNC(w2, e.notes), t), e.notes)
PlayBar(w, b) ==
    LET w1 == Emit([SetDelta(w, w.delay) EXCEPT !.delay = 0], "meter", b.meter[1], Log2u(b.meter[2]), 0)
        w2 == Emit(SetDelta(w1, 0), "key", KeySf(b.key), KeyMinor(b.key), 0) IN
    FoldLeft(PlayEntry, w2, b.entries)
PlayTrack(w, tr) ==
    LET w1 == EmitTxt(w, "name", tr.name)
        w2 == IF tr.instr.kind = "midi" THEN [w1 EXCEPT !.chg = TRUE, !.instr = tr.instr.nr] ELSE w1 IN
    FoldLeft(PlayBar, w2, tr.bars)
Start(bpm) == LET w == W0(bpm) IN Emit(w, "tempo", TempoValue(bpm), 0, 0)
RECURSIVE Times(_, _, _)
Times(w, tr, k) == IF k = 0 THEN w ELSE Times(PlayTrack(w, tr), tr, k - 1)
WriteTrack(tr, bpm, repeat) == Times(Start(bpm), tr, repeat + 1).out
RECURSIVE TimesBar(_, _, _)
TimesBar(w, b, k) == IF k = 0 THEN w ELSE TimesBar(PlayBar(w, b), b, k - 1)
WriteBar(b, bpm, repeat) == TimesBar(Start(bpm), b, repeat + 1).out
=============================================================================
