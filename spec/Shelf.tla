-------------------------------- MODULE Shelf --------------------------------
(***************************************************************************)
(* EXTENSION X06: the bookkeeping of Composition and Suite - the two        *)
(* containers that hold other containers and a title page.  (What a         *)
(* composition does with notes and tracks is property C14; this is the      *)
(* rest: metadata, empty / reset, membership, indexing, rejection of        *)
(* foreign objects.)                                                         *)
(* A holder is [kind ("composition" | "suite"), title, subtitle, author,    *)
(* email, items (identities of the members, in order)].  Members are        *)
(* identified by small integers; the replay harness keeps the real objects. *)
(***************************************************************************)
EXTENDS Naturals, Integers, Sequences, FiniteSets
New(kind) == [kind |-> kind, title |-> "Untitled", subtitle |-> "", author |-> "", email |-> "", items |-> <<>>]
\* a: [op, h (which holder), x (member identity, 0 = an object of the wrong kind), i (index), s1, s2 (texts)]
Apply(st, a) ==
    LET h == st[a.h] IN
    CASE a.op = "new" -> Append(st, New(a.s1))
      [] a.op \in {"add", "plus"} -> IF a.x = 0 THEN st ELSE [st EXCEPT ![a.h].items = Append(@, a.x)]          \* a foreign object is refused
      [] a.op = "set_item" -> IF a.x = 0 /\ h.kind = "suite" THEN st                                          \* Suite checks; Composition does not
                              ELSE IF a.i \in 1..Len(h.items) THEN [st EXCEPT ![a.h].items[a.i] = a.x] ELSE st
      [] a.op = "set_title" -> [st EXCEPT ![a.h].title = a.s1, ![a.h].subtitle = a.s2]
      [] a.op = "set_title_default" -> [st EXCEPT ![a.h].title = (IF h.kind = "composition" THEN "Untitled" ELSE a.s1), ![a.h].subtitle = ""]
      [] a.op = "set_author" -> [st EXCEPT ![a.h].author = a.s1, ![a.h].email = a.s2]
      [] a.op = "empty" -> [st EXCEPT ![a.h].items = <<>>]
      [] a.op = "reset" -> [st EXCEPT ![a.h] = [New(h.kind) EXCEPT !.kind = h.kind]]
      [] OTHER -> st
\* which calls must raise (and leave everything as it was)
Refused(st, a) ==
    \/ a.op \in {"add", "plus"} /\ a.x = 0
    \/ a.op = "set_item" /\ a.x = 0 /\ st[a.h].kind = "suite"
    \/ a.op = "set_item" /\ a.i \notin 1..Len(st[a.h].items)
    \/ a.op \in {"empty", "reset"} /\ st[a.h].kind = "suite"       \* a Suite has no empty / reset
=============================================================================
