------------------------------- MODULE MC_X08 -------------------------------
(* Every history of registrations over instrument names and descriptions that *)
(* coincide without regard to case or are prefixes of one another; design      *)
(* invariants and frame conditions; generator of histories.                    *)
EXTENDS Registry, TLC, Json
CONSTANTS D, Emitting
VARIABLES reg, hist
Instrs == {<<"L","u","t","e">>, <<"L","U","T","E">>, <<"L","u">>, <<"H","a","r","p">>}
Descrs == {<<"S","t","a","n","d","a","r","d">>, <<"s","t","a","n","d","a","r","d">>, <<"S","t","a","n","d">>, <<"O","p","e","n">>}
Shapes == {<<4, 1>>, <<6, 1>>, <<4, 2>>}
Init == reg = Empty /\ hist = <<>>
Next == Len(hist) < D /\ \E i \in Instrs, d \in Descrs, s \in Shapes :
          LET a == [instr |-> i, descr |-> d, id |-> Len(hist) + 1, strings |-> s[1], courses |-> s[2]] IN
          /\ reg' = Add(reg, i, d, [id |-> a.id, strings |-> a.strings, courses |-> a.courses])
          /\ hist' = Append(hist, a)
          /\ (Emitting /\ Len(hist') = D => PrintT("@@" \o ToJson([acts |-> hist'])))
Spec == Init /\ [][Next]_<<reg, hist>>
InvOneEntry == OneEntryPerName(reg)
InvOneTuning == OneTuningPerDescription(reg)
\* the display name of an instrument never changes once registered; instruments and descriptions keep their places
DisplayKept == [][\A i \in 1..Len(reg) : reg'[i].display = reg[i].display /\ reg'[i].up = reg[i].up
                     /\ \A k \in 1..Len(reg[i].tunings) : reg'[i].tunings[k].up = reg[i].tunings[k].up]_<<reg, hist>>
\* what was registered last is what a search for exactly that instrument and description finds
LastIsFound == [][LET a == hist'[Len(hist')] IN FirstTuning(reg', a.instr, a.descr, 0, 0) = <<[id |-> a.id, strings |-> a.strings, courses |-> a.courses]>>]_<<reg, hist>>
LastIsFoundInv == hist = <<>> \/ LET a == hist[Len(hist)] IN FirstTuning(reg, a.instr, a.descr, 0, 0) = <<[id |-> a.id, strings |-> a.strings, courses |-> a.courses]>>
\* (LastIsFound is REFUTED by TLC, and that is the documented design: a description that is a prefix of an earlier one - 'Stand' after
\* 'Standard' - is shadowed by it in get_tuning, which takes the first description the text is a prefix of; MC_X08_shadow.cfg keeps the refutation.)
\* What does hold: the last registration is listed under its instrument
LastIsListed == [][LET a == hist'[Len(hist')] r == TuningsOf(reg', a.instr, 0, 0) IN \E k \in 1..Len(r) : r[k].id = a.id]_<<reg, hist>>
\* every listed tuning satisfies the constraints asked
ListedFit == \A s \in {<<>>, <<"L">>, <<"l","u">>, <<"H">>}, ns \in {0, 4, 6}, nc \in {0, 1, 2} :
               LET r == TuningsOf(reg, s, ns, nc) IN \A k \in 1..Len(r) : Fits(r[k], ns, nc)
=============================================================================
