--------------------------------- MODULE Tab ---------------------------------
(* Tunings, fingerings and tablature (property C20).  A tuning is DATA: the     *)
(* open pitch numbers of its strings (first string of a course), in order.      *)
EXTENDS Keys, NoteObj, SequencesExt

None == -1
\* fret of pitch p on a string with open pitch o: the semitone distance when within 0..maxfret
Fret(o, p, maxfret) == IF p - o >= 0 /\ p - o <= maxfret THEN p - o ELSE None
LawFindFrets(open, p, maxfret, r) == r = [i \in 1..Len(open) |-> Fret(open[i], p, maxfret)]

\* ---- brute-force specification of find_fingering: all injective assignments of strings to the notes
\* (in order), each string sounding its note within frets 0..24, non-open frets spanning less than maxdist
SpanOk(frets, maxdist) == LET nz == {frets[i] : i \in {j \in 1..Len(frets) : frets[j] # 0}} IN
                          nz = {} \/ (\A a, b \in nz : a - b < maxdist)
Injective(f) == \A i, j \in 1..Len(f) : i # j => f[i] # f[j]
Fingerings(open, notes, maxdist) ==
    {[i \in 1..Len(notes) |-> <<s[i], notes[i] - open[s[i] + 1]>>] :
        s \in {t \in [1..Len(notes) -> 0..(Len(open) - 1)] :
                   /\ Injective(t)
                   /\ \A i \in 1..Len(notes) : Fret(open[t[i] + 1], notes[i], 24) # None
                   /\ SpanOk([i \in 1..Len(notes) |-> notes[i] - open[t[i] + 1]], maxdist)}}
Total(f) == LET F(acc, x) == acc + x[2] IN FoldLeft(F, 0, f)
LawFindFingering(open, notes, maxdist, r) ==
    /\ {r[i] : i \in 1..Len(r)} = Fingerings(open, notes, maxdist)
    /\ Cardinality({r[i] : i \in 1..Len(r)}) = Len(r)                         \* no duplicates
    /\ \A i \in 1..(Len(r) - 1) : Total(r[i]) <= Total(r[i + 1])              \* ordered by total fret number

\* ---- chord fingerings: soundness relations
FingersNeeded(fg) ==   \* fg: sequence over strings of a fret or None; walk from the last string to the first
    LET fretted == {fg[i] : i \in {j \in 1..Len(fg) : fg[j] # None /\ fg[j] # 0}}
        minimum == IF fretted = {} THEN 0 ELSE CHOOSE m \in fretted : \A x \in fretted : m <= x
        F(acc, i) == LET f == fg[Len(fg) + 1 - i] IN
                     IF f = None THEN acc                            \* an unplayed string needs no finger
                     ELSE IF f = 0 THEN [acc EXCEPT !.split = TRUE]
                     ELSE IF ~acc.split /\ f = minimum THEN (IF acc.index THEN acc ELSE [acc EXCEPT !.n = @ + 1, !.index = TRUE])
                     ELSE [acc EXCEPT !.n = @ + 1]
    IN FoldLeft(F, [n |-> 0, split |-> FALSE, index |-> FALSE], [i \in 1..Len(fg) |-> i]).n
LawChordFingering(open, pcs, maxdist, fg) ==
    LET played == {i \in 1..Len(fg) : fg[i] # None} IN
    /\ Len(fg) = Len(open)                                                          \* one entry per string
    /\ \A i \in played : Mod12(open[i] + fg[i]) \in pcs                             \* sounds only pitch classes of the chord
    /\ pcs \subseteq {Mod12(open[i] + fg[i]) : i \in played}                        \* covers all of them
    /\ SpanOk([i \in 1..Len(fg) |-> IF fg[i] = None THEN 0 ELSE fg[i]], maxdist)    \* span of the non-open frets

\* ---- tablature: decoding fret numbers read off the string lines
\* a token is [s (string index, 0-based), a, b (first and last column), f (fret)]; tokens of one entry share columns
Overlap(x, y) == ~(x.b < y.a \/ y.b < x.a)
\* groups = tokens that overlap in columns; ordered left to right
GroupOf(tokens, x) == {y \in tokens : Overlap(x, y)}
Groups(tokens) == {GroupOf(tokens, x) : x \in tokens}
LeftCol(g) == CHOOSE a \in {x.a : x \in g} : \A x \in g : a <= x.a
OrderedGroups(tokens) == SetToSortSeq(Groups(tokens), LAMBDA g, h : LeftCol(g) < LeftCol(h))
PitchesOf(open, g) == {open[x.s + 1] + x.f : x \in g}
DecodedBlock(open, tokens) == [i \in 1..Len(OrderedGroups(tokens)) |-> PitchesOf(open, OrderedGroups(tokens)[i])]
=============================================================================
