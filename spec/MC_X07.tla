------------------------------- MODULE MC_X07 -------------------------------
(* The bar under placements, removals, emptying and changes of one entry's    *)
(* value: the starts stay prefix sums, a change touches only that entry's     *)
(* value and the starts after it; range and names are functions of the        *)
(* sounding notes.  Also the generator of histories.                           *)
EXTENDS BarQueries, TLC, Json
CONSTANTS D, Emitting
VARIABLES bar, hist
Q == [b |-> 4, d |-> 0, r |-> <<1,1>>]
E8 == [b |-> 5, d |-> 0, r |-> <<1,1>>]
H == [b |-> 3, d |-> 0, r |-> <<1,1>>]
QD == [b |-> 4, d |-> 1, r |-> <<1,1>>]
Vals == {Q, E8, H, QD}
It(n, o) == [t |-> "pair", n |-> n, o |-> o]
Args == {[rest |-> FALSE, items |-> <<It(<<"C">>, 4)>>], [rest |-> FALSE, items |-> <<It(<<"E">>, 4), It(<<"G">>, 4), It(<<"C">>, 5)>>],
         [rest |-> FALSE, items |-> <<It(<<"A">>, 2)>>], [rest |-> FALSE, items |-> <<It(<<"G">>, 5), It(<<"C">>, 4)>>], [rest |-> TRUE, items |-> <<>>]}
A0(op) == [op |-> op, v |-> Q, arg |-> [rest |-> TRUE, items |-> <<>>], i |-> 0]
Acts(b) == {[A0("place") EXCEPT !.v = v, !.arg = a] : v \in {Q, E8, H}, a \in Args} \cup
           {[A0("change") EXCEPT !.i = i, !.v = v] : i \in 1..Len(b.entries), v \in Vals} \cup
           (IF b.entries # <<>> THEN {A0("remove_last")} ELSE {}) \cup {A0("empty")}
Step(b, a) == CASE a.op = "place" -> Place(b, a.v, a.arg)
                [] a.op = "change" -> ChangeValue(b, a.i, a.v)
                [] a.op = "remove_last" -> RemoveLast(b)
                [] a.op = "empty" -> Emptied(b)
Init == bar = NewBar(<<4, 4>>) /\ hist = <<>>
Next == Len(hist) < D /\ \E a \in Acts(bar) :
          /\ bar' = Step(bar, a) /\ hist' = Append(hist, a)
          /\ (Emitting /\ Len(hist') = D => PrintT("@@" \o ToJson([acts |-> hist'])))
Spec == Init /\ [][Next]_<<bar, hist>>
LastAct == hist'[Len(hist')]
InvPrefix == StartsArePrefixSums(bar)
InvRange == PitchSet(bar) # {} => Lowest(bar) <= Highest(bar) /\ \A p \in PitchSet(bar) : Lowest(bar) <= p /\ p <= Highest(bar)
InvNames == \A i, j \in 1..Len(NoteNames(bar)) : i # j => NoteNames(bar)[i] # NoteNames(bar)[j]
InvNamesCover == {NoteNames(bar)[i] : i \in 1..Len(NoteNames(bar))} = {SoundingNotes(bar)[i].n : i \in 1..Len(SoundingNotes(bar))}
\* a change of value keeps the number of entries, every content, every other value, and the starts up to the entry
ChangeFrame == [][LastAct.op = "change" =>
                   /\ Len(bar'.entries) = Len(bar.entries)
                   /\ \A j \in 1..Len(bar.entries) : /\ bar'.entries[j].c = bar.entries[j].c
                                                     /\ (j # LastAct.i => bar'.entries[j].t = bar.entries[j].t)
                                                     /\ (j <= LastAct.i => bar'.entries[j].at = bar.entries[j].at)]_<<bar, hist>>
\* the same value again changes nothing (the edit is idempotent)
ChangeIdempotent == [][LastAct.op = "change" => ChangeValue(bar', LastAct.i, LastAct.v) = bar']_<<bar, hist>>
=============================================================================
