----------------------------- MODULE Instruments -----------------------------
(***************************************************************************)
(* EXTENSION X03: instruments and their ranges (mingus.containers.instrument).*)
(* An instrument is [kind, lo, hi] with lo/hi pitch numbers (C-0 = 0).       *)
(* A note is in range when lo <= pitch <= hi; a set of notes can be played   *)
(* when every note is in range - and, on a guitar, when there are at most    *)
(* six of them.  Setting the range of one instrument changes that instrument *)
(* only (ranges are class attributes in the code: a frame condition worth    *)
(* checking).                                                                 *)
(***************************************************************************)
EXTENDS Naturals, Integers, Sequences, FiniteSets
Kinds == {"generic", "piano", "guitar", "midi"}
DefaultLo(k) == CASE k = "generic" -> 0 [] k = "piano" -> 5 [] k = "guitar" -> 40 [] k = "midi" -> 0
DefaultHi(k) == CASE k = "generic" -> 96 [] k = "piano" -> 107 [] k = "guitar" -> 88 [] k = "midi" -> 107
NewInstr(k) == [kind |-> k, lo |-> DefaultLo(k), hi |-> DefaultHi(k)]
InRange(ins, p) == ins.lo <= p /\ p <= ins.hi
CanPlay(ins, ps) == (\A i \in 1..Len(ps) : InRange(ins, ps[i])) /\ (ins.kind = "guitar" => Len(ps) <= 6)
\* actions on the state (a sequence of instruments)
Apply(st, a) == CASE a.op = "new" -> Append(st, NewInstr(a.kind))
                  [] a.op = "set_range" -> [st EXCEPT ![a.i] = [@ EXCEPT !.lo = a.lo, !.hi = a.hi]]
                  [] OTHER -> st
=============================================================================
