SPECIFICATION Spec
CONSTANTS N = 5
 Guarded = TRUE
 MaxVal = 8
 MaxLen = 3
INVARIANT MemoryIsSound
INVARIANT AnswersAreIndex
