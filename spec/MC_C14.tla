------------------------------ MODULE MC_C14 ------------------------------
(* Model of a Track (and generator of track histories): add_notes / + /        *)
(* add_bar / from_chords over values, meters, keys, rests and instruments.     *)
EXTENDS Track, TLC, Json
CONSTANTS Mode, D
VARIABLES tr, hist, ret, kind0, extNonFull
Vals == {[b |-> 2, d |-> 0, r |-> <<1,1>>], [b |-> 3, d |-> 0, r |-> <<1,1>>], [b |-> 4, d |-> 0, r |-> <<1,1>>],
         [b |-> 5, d |-> 0, r |-> <<1,1>>], [b |-> 4, d |-> 1, r |-> <<1,1>>], [b |-> 5, d |-> 0, r |-> <<3,2>>]}
Obj(n, o) == [t |-> "obj", n |-> n, o |-> o]
N1 == [rest |-> FALSE, items |-> <<Obj(<<"C">>, 4)>>]
CH == [rest |-> FALSE, items |-> <<Obj(<<"C">>, 4), Obj(<<"E">>, 4), Obj(<<"G">>, 4)>>]
HI == [rest |-> FALSE, items |-> <<Obj(<<"C">>, 9)>>]
LO == [rest |-> FALSE, items |-> <<Obj(<<"E">>, 4), Obj(<<"C">>, 2)>>]
\* a chord whose out-of-range note is neither its first nor its last item
MID == [rest |-> FALSE, items |-> <<Obj(<<"C">>, 4), Obj(<<"C">>, 9), Obj(<<"E">>, 4), Obj(<<"G">>, 4)>>]
\* names spelled across the octave line at the ends of the instruments' ranges: Cb-8 is the pitch B-7, B#-8 the pitch C-9
CB8 == [rest |-> FALSE, items |-> <<Obj(<<"C","b">>, 8)>>]
BS8 == [rest |-> FALSE, items |-> <<Obj(<<"B","#">>, 8)>>]
CB3 == [rest |-> FALSE, items |-> <<Obj(<<"C","b">>, 3)>>]
RS == [rest |-> TRUE, items |-> <<>>]
It(root, sh, depth) == [rest |-> FALSE, root |-> root, sh |-> sh, depth |-> depth]
ItR(depth) == [rest |-> TRUE, root |-> <<"C">>, sh |-> "", depth |-> depth]
ChordLists == {<<It(<<"C">>, "", 0), It(<<"A">>, "m", 0), ItR(0), It(<<"G">>, "7", 0)>>,
               <<It(<<"C">>, "M7", 0), It(<<"A">>, "m", 1), It(<<"D">>, "m", 2), It(<<"G">>, "7", 2), It(<<"F">>, "", 1)>>,
               <<It(<<"E","b">>, "m7", 1), It(<<"B","b">>, "7", 1), It(<<"F","#">>, "dim", 1)>>,
               \* the same chord symbol more than once (flat and nested): each occurrence is its own chord in the track
               <<It(<<"C">>, "", 0), It(<<"F">>, "", 0), ItR(0), It(<<"C">>, "", 0), It(<<"C">>, "", 1), It(<<"C">>, "", 1)>>}
Acts ==
  {[op |-> "add_notes", arg |-> a, v |-> v, dflt |-> FALSE] : a \in {N1, CH, RS, HI, LO}, v \in Vals} \cup
  {[op |-> "add_notes", arg |-> a, v |-> [b |-> 4, d |-> 0, r |-> <<1,1>>], dflt |-> TRUE] : a \in {N1, RS}} \cup
  {[op |-> "add_notes", arg |-> a, v |-> [b |-> 4, d |-> 0, r |-> <<1,1>>], dflt |-> FALSE] : a \in {MID, CB8, BS8, CB3}} \cup
  {[op |-> "add_bar", key |-> <<"G">>, meter |-> <<0,0>>, filled |-> FALSE]} \cup          \* a free-time bar never fills: everything added afterwards stays in it
  {[op |-> "plus", arg |-> a] : a \in {N1, CH}} \cup
  {[op |-> "add_bar", key |-> k, meter |-> m, filled |-> f] : k \in {<<"G">>, <<"e","b">>}, m \in {<<3,4>>, <<6,8>>}, f \in BOOLEAN} \cup
  {[op |-> "from_chords", items |-> c, v |-> v] : c \in ChordLists, v \in {[b |-> 2, d |-> 0, r |-> <<1,1>>], [b |-> 3, d |-> 0, r |-> <<1,1>>]}}
\* a bar handed to add_bar: empty, or filled with `count` rests of the beat unit
GivenBar(a) == LET b0 == NewTBar(a.key, a.meter) IN
               IF ~a.filled THEN b0
               ELSE [b0 EXCEPT !.entries = [i \in 1..a.meter[1] |-> [at |-> (i - 1) * Ticks(UnitValue(a.meter[2])), t |-> Ticks(UnitValue(a.meter[2])), c |-> Rest]]]
\* result of one action: <<track', outcome>> with outcome in {"true", "false", "range", "done"}
Do(t, a) ==
  CASE a.op \in {"add_notes", "plus"} ->
         LET v == IF a.op = "plus" THEN [b |-> 4, d |-> 0, r |-> <<1,1>>] ELSE a.v IN
         IF ~InRange(t.instr, a.arg) THEN <<t, "range">>
         ELSE LET r == AddNotesT(t, ContentOf(a.arg), Ticks(v)) IN IF r[2] THEN <<r[1], "true">> ELSE <<t, "false">>
    [] a.op = "add_bar" -> <<AddBar(t, GivenBar(a)), "done">>
    [] a.op = "from_chords" -> <<FromChords(t, a.items, Ticks(a.v)), "done">>
Init == \E k \in InstrKinds : tr = NewTrack(k) /\ kind0 = k /\ hist = <<>> /\ ret = "done" /\ extNonFull = FALSE
Next == \E a \in Acts :
          /\ tr' = Do(tr, a)[1] /\ ret' = Do(tr, a)[2] /\ UNCHANGED kind0
          /\ extNonFull' = (extNonFull \/ (a.op = "add_bar" /\ (~a.filled \/ (tr.bars # <<>> /\ ~IsFull(LastBar(tr))))) \/ a.op = "from_chords")
          /\ Len(hist) < D /\ hist' = (IF Mode = "mc" THEN Append(hist, 0) ELSE Append(hist, a))
          /\ (Mode = "hist" /\ Len(hist') = D => PrintT("@@" \o ToJson([instr |-> kind0, acts |-> hist'])))
Spec == Init /\ [][Next]_<<tr, hist, ret, kind0, extNonFull>>
InvBars == \A i \in 1..Len(tr.bars) : StartsArePrefixSums(tr.bars[i]) /\ NeverOverfull(tr.bars[i])
InvAllButLastFull == extNonFull \/ AllButLastFull(tr)
PropRefused == [][ret' \in {"false", "range"} => tr' = tr]_<<tr, hist, ret, kind0, extNonFull>>
PropNewBar == [][Len(tr'.bars) > Len(tr.bars) /\ ret' = "true" /\ Len(tr.bars) > 0 =>
                    /\ IsFull(LastBar(tr)) /\ LastBar(tr').key = LastBar(tr).key /\ LastBar(tr').meter = LastBar(tr).meter]_<<tr, hist, ret, kind0, extNonFull>>
=============================================================================
