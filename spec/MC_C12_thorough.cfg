SPECIFICATION Spec
CONSTANTS MaxLen = 3
 Emit = FALSE
INVARIANT InvSorted
INVARIANT InvSetModel
PROPERTY PropSetModel
