SPECIFICATION Spec
CONSTANTS D = 5
PROPERTY PropFrame
