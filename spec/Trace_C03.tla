----------------------------- MODULE Trace_C03 -----------------------------
EXTENDS Intervals, TLC, Json, IOUtils
Trace == ndJsonDeserialize(IOEnv.TRACE)
VARIABLES l, bad, nbad
Reverse(s) == [i \in 1..Len(s) |-> s[Len(s) + 1 - i]]
Clause(e) ==
  CASE e.op = "determine" ->
         IF ~InNamingDomain(e.in.a, e.in.b) THEN "ok"      \* outside the stated domain: no clause
         ELSE IF ~e.ok THEN "name-raised"
         ELSE IF e.in.short THEN (IF e.out = ShortName(e.in.a, e.in.b) THEN "ok" ELSE "name-short")
         ELSE (IF e.out = LongName(e.in.a, e.in.b) THEN "ok" ELSE "name-long")
    [] e.op = "inverse" ->      \* from_shorthand(a, determine(a, b, True))
         IF ~InNamingDomain(e.in.a, e.in.b) THEN "ok"
         ELSE IF e.ok /\ e.out = e.in.b THEN "ok" ELSE "name-inverse"
    [] e.op = "from_shorthand" ->
         IF e.ok /\ LawFromSh(e.in.n, e.in.sh, e.in.up, e.out) THEN "ok"
         ELSE (IF e.in.up THEN "shorthand-up" ELSE "shorthand-down")
    [] e.op = "updown" -> IF e.ok /\ e.out = e.in.n THEN "ok" ELSE "up-then-down"
    [] e.op = "invert" ->
         IF e.ok /\ e.out.r = Reverse(e.in.xs) /\ e.out.after = e.in.xs THEN "ok" ELSE "invert"
    [] OTHER -> "unknown-op"
W == INSTANCE Walk
Spec == W!Spec
Consumed == W!Consumed
=============================================================================
