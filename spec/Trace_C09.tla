----------------------------- MODULE Trace_C09 -----------------------------
EXTENDS Value, TLC, Json, IOUtils
Trace == ndJsonDeserialize(IOEnv.TRACE)
VARIABLES l, bad, nbad
V(x) == [b |-> x.b, d |-> x.d, r |-> x.r]
Clause(e) ==
  CASE e.op = "determine" ->
         IF e.in.p = 0 THEN (IF e.ok /\ LawAnalyse(V(e.in.v), V(e.out)) THEN "ok" ELSE "analysis-inverts-construction")
         ELSE (IF e.ok /\ LawAnalyse(V(e.in.v), V(e.out)) THEN "ok" ELSE "near-miss-analysis")
    [] e.op = "length" ->      \* L / (value built by the library's constructors): dots and tuplet helpers
         IF e.ok /\ Close(e.out.t, e.out.res9, Ticks(V(e.in.v))) THEN "ok"
         ELSE IF e.in.v.d > 0 THEN "dots" ELSE "tuplet"
    [] e.op = "tuplet_formula" ->   \* helper (triplet/quintuplet/septuplet) = general ratio formula
         IF e.ok /\ e.out.helper = e.out.general /\ Close(e.out.helper.t, e.out.helper.res9, Ticks(V(e.in.v))) THEN "ok" ELSE "tuplet"
    [] e.op = "add" -> IF e.ok /\ Close(e.out.t, e.out.res9, Ticks(V(e.in.a)) + Ticks(V(e.in.b))) THEN "ok" ELSE "add"
    [] e.op = "subtract" ->
         IF Ticks(V(e.in.a)) = Ticks(V(e.in.b)) THEN "ok"          \* zero duration has no note value
         ELSE IF e.ok /\ Close(e.out.t, e.out.res9, Ticks(V(e.in.a)) - Ticks(V(e.in.b))) THEN "ok" ELSE "subtract"
    [] e.op = "add_subtract" -> IF e.ok /\ Close(e.out.t, e.out.res9, Ticks(V(e.in.a))) THEN "ok" ELSE "add-subtract-inverse"
    [] e.op = "valid_beat_duration" ->
         IF ~e.ok THEN (IF e.err = "hang" THEN "terminates" ELSE "beat-unit-validity")
         ELSE IF e.out = ValidUnit(e.in.u) THEN "ok" ELSE "beat-unit-validity"
    \* beat units beyond 32 bits, written 2^k + d with k >= 31 and 0 < |d| <= 8 or d = 0: a power of two exactly when d = 0
    [] e.op = "valid_beat_duration_big" ->
         IF ~e.ok THEN (IF e.err = "hang" THEN "terminates" ELSE "beat-unit-validity")
         ELSE IF e.out = (e.in.d = 0) THEN "ok" ELSE "beat-unit-validity"
    [] e.op = "is_valid_big" ->
         IF ~e.ok THEN (IF e.err = "hang" THEN "terminates" ELSE "meter-validity")
         ELSE IF e.out = (e.in.c > 0 /\ e.in.d = 0) THEN "ok" ELSE "meter-validity"
    [] e.op = "is_valid" ->
         IF ~e.ok THEN (IF e.err = "hang" THEN "terminates" ELSE "meter-validity")
         ELSE IF e.out = ValidMeter(e.in.c, e.in.u) THEN "ok" ELSE "meter-validity"
    [] e.op = "is_compound" ->
         IF ~e.ok THEN (IF e.err = "hang" THEN "terminates" ELSE "compound")
         ELSE IF e.out = Compound(e.in.c, e.in.u) THEN "ok" ELSE "compound"
    [] e.op = "is_asymmetrical" ->
         IF ~e.ok THEN (IF e.err = "hang" THEN "terminates" ELSE "asymmetrical")
         ELSE IF e.out = Asymmetrical(e.in.c, e.in.u) THEN "ok" ELSE "asymmetrical"
    [] e.op = "is_simple" -> IF e.ok \/ e.err # "hang" THEN "ok" ELSE "terminates"
    [] OTHER -> "unknown-op"
W == INSTANCE Walk
Spec == W!Spec
Consumed == W!Consumed
=============================================================================
