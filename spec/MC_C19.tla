------------------------------ MODULE MC_C19 ------------------------------
(* The LilyPond token grammar is unambiguous on rendered programs: reading     *)
(* what a reference renderer writes gives the program back.                    *)
EXTENDS Notation, Bar, TLC
VARIABLE call
Init == call = [op |-> "init"]
Tok(k) == [k |-> k]
Dur(v) == [has |-> TRUE, base |-> v.b, dots |-> v.d]
RenderEntry(e) == IF e.rest THEN <<[k |-> "rest", dur |-> Dur(e.v)]>>
                  ELSE IF Len(e.notes) = 1 THEN <<[k |-> "note", l |-> Lower(e.notes[1].n[1]), acc |-> Net(e.notes[1].n), oct |-> e.notes[1].o, dur |-> Dur(e.v)]>>
                  ELSE <<Tok("lchord")>> \o [i \in 1..Len(e.notes) |-> [k |-> "note", l |-> Lower(e.notes[i].n[1]), acc |-> Net(e.notes[i].n), oct |-> e.notes[i].o, dur |-> [has |-> FALSE, base |-> -1, dots |-> 0]]]
                       \o <<[k |-> "rchord", dur |-> Dur(e.v)]>>
\* a reference renderer for one bar: tuplets are bracketed entry by entry
RenderBar(b) == <<Tok("lbrace"), [k |-> "time", a |-> b.meter[1], b |-> b.meter[2]], [k |-> "key", l |-> KeyTriple(b.key)[1], acc |-> KeyTriple(b.key)[2], mode |-> KeyTriple(b.key)[3]]>>
                \o FoldLeft(LAMBDA acc, e : acc \o (IF e.v.r = <<1,1>> THEN RenderEntry(e)
                                                     ELSE <<[k |-> "times", a |-> e.v.r[2], b |-> e.v.r[1]], Tok("lbrace")>> \o RenderEntry(e) \o <<Tok("rbrace")>>), <<>>, b.entries)
                \o <<Tok("rbrace")>>
Nt(n, o) == [n |-> n, o |-> o, ch |-> 1, vel |-> 64]
Conts == {<<>>, <<Nt(<<"C","#">>, 4)>>, <<Nt(<<"E","b","b">>, 2), Nt(<<"G">>, 5)>>}
Vs == {[b |-> 4, d |-> 0, r |-> <<1,1>>], [b |-> 5, d |-> 0, r |-> <<3,2>>], [b |-> 3, d |-> 2, r |-> <<1,1>>], [b |-> 0, d |-> 0, r |-> <<1,1>>], [b |-> 6, d |-> 0, r |-> <<5,4>>]}
E1(v, c) == [v |-> v, t |-> Ticks(v), rest |-> c = <<>>, notes |-> c, bpm |-> 0]
Next == call.op = "init" /\ \E k \in {<<"C">>, <<"e","b">>, <<"F","#">>}, v1 \in Vs, v2 \in Vs, c1 \in Conts, c2 \in Conts :
            call' = [op |-> "bar", b |-> [key |-> k, meter |-> <<8,1>>, entries |-> <<E1(v1, c1), E1(v2, c2)>>]]
Spec == Init /\ [][Next]_call
Theorems == call.op = "bar" =>
    LET r == LyRead(RenderBar(call.b), 1) IN
    /\ r.err = "" /\ r.d = 0 /\ Len(r.bars) = 1
    /\ LyTrackClause(<<call.b>>, r.bars, TRUE) = "ok"
=============================================================================
