SPECIFICATION Spec
CONSTANTS D = 2
