INIT Init
NEXT Next
CONSTANTS
 SlashRoots <- T_SlashRoots
 AliasRoots <- T_AliasRoots
 PolyShorthands <- T_PolyShorthands
 PolyRoots <- T_PolyRoots
