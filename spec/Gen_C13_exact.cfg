SPECIFICATION Spec
CONSTANTS Mode = "exact"
 D = 60
 ValueSet = "small"
 MeterSet = "large"
