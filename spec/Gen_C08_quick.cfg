INIT Init
NEXT Next
CONSTANTS PrefixKeys = "some"
 MaxPrefix = 3
 ProgLen = 3
