----------------------------- MODULE Trace_X07 -----------------------------
(* Extension X07: a real Bar under placements, removals, emptying and changes *)
(* of a value, with its answers (range, note names, value left, chords per    *)
(* entry) after every step, against BarQueries.tla.                            *)
EXTENDS BarQueries, TLC, Json, IOUtils
Trace == ndJsonDeserialize(IOEnv.TRACE)
VARIABLES l, st, bad, nbad
V(x) == [b |-> x.b, d |-> x.d, r |-> <<x.r[1], x.r[2]>>]
Items(xs) == [i \in 1..Len(xs) |-> [t |-> xs[i].t, n |-> xs[i].n, o |-> xs[i].o]]
Arg(a) == [rest |-> a.rest, items |-> Items(a.items)]
Notes(xs) == [i \in 1..Len(xs) |-> [n |-> xs[i].n, o |-> xs[i].o]]
Content(c) == IF c.rest THEN Rest ELSE Sounding(Notes(c.notes))
ObsState(o) == [meter |-> <<o.meter[1], o.meter[2]>>, len |-> o.len,
                entries |-> [i \in 1..Len(o.entries) |-> [at |-> o.entries[i].at, t |-> o.entries[i].vt, c |-> Content(o.entries[i].c)]]]
Expected(s, line) ==
  CASE line.op = "place" -> Place(s, V(line.in.v), Arg(line.in.arg))
    [] line.op = "change" -> ChangeValue(s, line.in.i, V(line.in.v))
    [] line.op = "remove_last" -> RemoveLast(s)
    [] line.op = "empty" -> Emptied(s)
HasRest(b) == \E i \in 1..Len(b.entries) : b.entries[i].c.rest
\* the answers after the step, judged against the bar as observed after the step
Answers(b, q) ==
    IF PitchSet(b) # {} /\ ~q.range.ok THEN (IF HasRest(b) THEN "answer-raised-on-a-bar-with-a-rest" ELSE "range-raised")
    ELSE IF PitchSet(b) # {} /\ q.range.lo # Lowest(b) THEN "range-lowest"
    ELSE IF PitchSet(b) # {} /\ q.range.hi # Highest(b) THEN "range-highest"
    ELSE IF ~q.names.ok THEN (IF HasRest(b) THEN "answer-raised-on-a-bar-with-a-rest" ELSE "names-raised")
    ELSE IF q.names.v # NoteNames(b) THEN "note-names-once-each-in-order"
    ELSE IF ~q.chords.ok THEN (IF HasRest(b) THEN "answer-raised-on-a-bar-with-a-rest" ELSE "chords-raised")
    ELSE IF q.chords.beats # [i \in 1..Len(b.entries) |-> b.entries[i].at] THEN "chords-at-the-entry-starts"
    ELSE IF ~q.chords.same THEN "chords-are-what-the-container-is-recognised-as"
    ELSE IF SpaceLeft(b) > 0 /\ (~q.left.ok \/ q.left.t # SpaceLeft(b)) THEN "value-left-is-the-space-left"
    ELSE "ok"
Clause(s0, line) ==
    LET s == IF line.first THEN NewBar(<<4, 4>>) ELSE s0
        exp == Expected(s, line) obs == ObsState(line.obs) IN
    IF ~line.ok THEN (IF line.op = "change" /\ PlainValue(V(line.in.v)) THEN "change-of-value-raised" ELSE "operation-raised")
    ELSE IF obs # exp THEN (IF line.op = "change" THEN "change-of-value" ELSE "bar-state")
    ELSE IF line.op = "change" /\ line.cur # Total(exp.entries) THEN "current-beat-after-change-of-value"
    ELSE Answers(obs, line.q)
NextState(s0, line) == ObsState(line.obs)
InitState == NewBar(<<4, 4>>)
W == INSTANCE WalkS
Spec == W!Spec
Consumed == W!Consumed
=============================================================================
