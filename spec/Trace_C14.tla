----------------------------- MODULE Trace_C14 -----------------------------
(* Trace validation for Track and Composition behaviours.  The specification   *)
(* state is a composition [tracks, sel]; a track behaviour is a composition     *)
(* with one track.                                                              *)
EXTENDS Track, TLC, Json, IOUtils
Trace == ndJsonDeserialize(IOEnv.TRACE)
VARIABLES l, st, bad, nbad
V(x) == [b |-> x.b, d |-> x.d, r |-> x.r]
Items(xs) == [i \in 1..Len(xs) |-> [t |-> xs[i].t, n |-> xs[i].n, o |-> xs[i].o]]
Arg(a) == [rest |-> a.rest, items |-> Items(a.items)]
Notes(xs) == [i \in 1..Len(xs) |-> [n |-> xs[i].n, o |-> xs[i].o]]
Content(c) == IF c.rest THEN Rest ELSE Sounding(Notes(c.notes))
Near(r) == r <= Tol9 /\ r >= 0 - Tol9
ObsBar(o) == [key |-> o.key, meter |-> <<o.meter[1], o.meter[2]>>,
              len |-> (IF o.meter = <<0, 0>> THEN Unbounded ELSE o.len),
              entries |-> [i \in 1..Len(o.entries) |-> [at |-> o.entries[i].at, t |-> o.entries[i].vt, c |-> Content(o.entries[i].c)]]]
ObsTrack(t) == [instr |-> t.instr, bars |-> [i \in 1..Len(t.bars) |-> ObsBar(t.bars[i])]]
ObsState(o) == [tracks |-> [i \in 1..Len(o.tracks) |-> ObsTrack(o.tracks[i])], sel |-> o.sel]
BarFloatsOk(o) == Near(o.lenRes) /\ Near(o.curRes) /\ \A i \in 1..Len(o.entries) : Near(o.entries[i].atRes) /\ Near(o.entries[i].vtRes)
FloatsOk(o) == \A i \in 1..Len(o.tracks) : \A j \in 1..Len(o.tracks[i].bars) : BarFloatsOk(o.tracks[i].bars[j])
Items2(xs) == [i \in 1..Len(xs) |-> [rest |-> xs[i].rest, root |-> xs[i].root, sh |-> xs[i].sh, depth |-> xs[i].depth]]
GivenBar(a) == LET b0 == NewTBar(a.key, <<a.meter[1], a.meter[2]>>) IN
               IF ~a.filled THEN b0
               ELSE [b0 EXCEPT !.entries = [i \in 1..a.meter[1] |-> [at |-> (i - 1) * Ticks(UnitValue(a.meter[2])), t |-> Ticks(UnitValue(a.meter[2])), c |-> Rest]]]
Quarter == [b |-> 4, d |-> 0, r |-> <<1, 1>>]
\* expected outcome of add_notes on one track: <<track', outcome>>
AddOutcome(t, arg, v) ==
    IF ~InRange(t.instr, arg) THEN <<t, "range">>
    ELSE LET r == AddNotesT(t, ContentOf(arg), Ticks(v)) IN IF r[2] THEN <<r[1], "true">> ELSE <<t, "false">>
Outcome(line) == IF ~line.ok THEN (IF line.err = "InstrumentRangeError" THEN "range" ELSE "raised")
                 ELSE IF line.ret = 1 THEN "true" ELSE IF line.ret = 0 THEN "false" ELSE "done"
SetTrack(s, i, t) == [s EXCEPT !.tracks[i] = t]
\* content equality of two observed tracks (what == must report): same bars, entries, values and pitch sets
EntryEq(a, b) == a.at = b.at /\ a.t = b.t /\ a.c.rest = b.c.rest /\ Pitches(a.c.notes) = Pitches(b.c.notes) /\ Len(a.c.notes) = Len(b.c.notes)
BarEq(a, b) == Len(a.entries) = Len(b.entries) /\ \A i \in 1..Len(a.entries) : EntryEq(a.entries[i], b.entries[i])
TrackEq(a, b) == Len(a.bars) = Len(b.bars) /\ \A i \in 1..Len(a.bars) : BarEq(a.bars[i], b.bars[i])
Clause(s, line) ==
  CASE line.op = "track_new" ->
         IF line.ok /\ ObsState(line.obs) = [tracks |-> <<NewTrack(line.in.instr)>>, sel |-> <<>>] THEN "ok" ELSE "new-track"
    [] line.op \in {"add_notes", "plus"} ->
         LET t == s.tracks[1]
             exp == AddOutcome(t, Arg(line.in.arg), IF line.op = "plus" THEN Quarter ELSE V(line.in.v))
             obs == ObsState(line.obs).tracks[1] IN
         IF Outcome(line) = "raised" THEN (IF Arg(line.in.arg).rest THEN "rest-accepted-with-any-instrument" ELSE "operation-raised")
         ELSE IF exp[2] = "range" /\ Outcome(line) # "range" THEN "out-of-range-note-refused"
         ELSE IF exp[2] # "range" /\ Outcome(line) = "range" THEN "in-range-note-accepted"
         ELSE IF Outcome(line) # exp[2] THEN "accepted-exactly-when-it-fits"
         ELSE IF exp[2] = "false" /\ obs # t /\ obs = WithOpenBar(t) THEN "rejected-item-left-an-empty-bar"
         ELSE IF exp[2] \in {"range", "false"} /\ obs # t THEN "rejected-item-changes-nothing"
         ELSE IF Len(obs.bars) > Len(t.bars) /\ Len(t.bars) > 0 /\ ~IsFull(LastBar(t)) THEN "new-bar-only-when-last-is-full"
         ELSE IF Len(obs.bars) > Len(t.bars) /\ Len(t.bars) > 0 /\ (LastBar(obs).key # LastBar(t).key \/ LastBar(obs).meter # LastBar(t).meter)
              THEN "new-bar-inherits-key-and-meter"
         ELSE IF obs # exp[1] THEN "track-content"
         ELSE IF ~FloatsOk(line.obs) THEN "float-drift" ELSE "ok"
    [] line.op = "add_bar" ->
         IF line.ok /\ ObsState(line.obs).tracks[1] = AddBar(s.tracks[1], GivenBar(line.in)) THEN "ok" ELSE "add-bar"
    [] line.op = "from_chords" ->
         LET exp == FromChords(s.tracks[1], Items2(line.in.items), Ticks(V(line.in.v))) obs == ObsState(line.obs).tracks[1] IN
         IF ~line.ok THEN (IF \E i \in 1..Len(line.in.items) : line.in.items[i].rest /\ line.in.items[i].depth > 0 THEN "nested-rest-placed" ELSE "operation-raised")
         ELSE IF TrackTotal(obs) # TrackTotal(s.tracks[1]) + FoldLeft(LAMBDA acc, it : acc + HalveTimes(Ticks(V(line.in.v)), it.depth), 0, Items2(line.in.items))
              THEN "chord-list-total-length"
         ELSE IF obs # exp THEN "chord-list-placement"
         ELSE IF ~FloatsOk(line.obs) THEN "float-drift" ELSE "ok"
    [] line.op = "track_query" ->
         LET t == s.tracks[1] o == line.out IN
         IF ~line.ok THEN "query-raised"
         ELSE IF o.len # Len(t.bars) THEN "track-length"
         ELSE IF o.iter # [i \in 1..Len(Flatten(t)) |-> [at |-> Flatten(t)[i].at, t |-> Flatten(t)[i].t, c |-> Flatten(t)[i].c]]
              THEN "iteration-yields-accepted-items"
         ELSE IF o.index # [i \in 1..Len(t.bars) |-> i] THEN "track-indexing"
         ELSE IF o.eq_twin # TRUE THEN "track-equality"
         ELSE IF o.eq_other # TrackEq(t, ObsTrack(o.other)) THEN "track-equality"
         ELSE IF o.integrity # AllButLastFull(t) THEN "all-but-last-bar-full"
         ELSE "ok"
    \* ---- compositions
    [] line.op = "comp_new" -> IF line.ok /\ ObsState(line.obs) = [tracks |-> <<>>, sel |-> <<>>] THEN "ok" ELSE "new-composition"
    [] line.op \in {"comp_add_track", "comp_plus_track"} ->
         IF line.ok /\ ObsState(line.obs) = [tracks |-> Append(s.tracks, NewTrack(line.in.instr)), sel |-> <<Len(s.tracks)>>] THEN "ok"
         ELSE "add-track-selects-it"
    [] line.op = "comp_select" -> IF line.ok /\ ObsState(line.obs) = [s EXCEPT !.sel = line.in.sel] THEN "ok" ELSE "select"
    [] line.op \in {"comp_add_note", "comp_plus_note"} ->
         LET sel == {s.sel[i] + 1 : i \in 1..Len(s.sel)}
             exp == [s EXCEPT !.tracks = [i \in 1..Len(s.tracks) |->
                         IF i \in sel THEN AddOutcome(s.tracks[i], Arg(line.in.arg), Quarter)[1] ELSE s.tracks[i]]] IN
         IF line.ok /\ ObsState(line.obs) = exp THEN "ok" ELSE "note-reaches-exactly-the-selected-tracks"
    [] line.op = "comp_direct" ->     \* an eighth note added directly to one track of the composition
         LET exp == [s EXCEPT !.tracks[line.in.track] = AddOutcome(@, Arg(line.in.arg), [b |-> 5, d |-> 0, r |-> <<1, 1>>])[1]] IN
         IF line.ok /\ ObsState(line.obs) = exp THEN "ok" ELSE "direct-track-addition"
    [] line.op = "comp_query" ->
         LET o == line.out IN
         IF ~line.ok THEN "query-raised"
         ELSE IF o.len # Len(s.tracks) THEN "composition-length"
         ELSE IF o.index # [i \in 1..Len(s.tracks) |-> i] THEN "composition-indexing"
         ELSE IF o.eq_twin # TRUE THEN "composition-equality"
         ELSE IF o.eq_other # (Len(o.other.tracks) = Len(s.tracks) /\ \A i \in 1..Len(s.tracks) : TrackEq(s.tracks[i], ObsTrack(o.other.tracks[i])))
              THEN "composition-equality"
         ELSE "ok"
    [] OTHER -> "unknown-op"
NextState(s, line) == IF line.op \in {"track_query", "comp_query"} THEN s ELSE ObsState(line.obs)
InitState == [tracks |-> <<>>, sel |-> <<>>]
W == INSTANCE WalkS
Spec == W!Spec
Consumed == W!Consumed
=============================================================================
