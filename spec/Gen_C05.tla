------------------------------ MODULE Gen_C05 ------------------------------
EXTENDS Scales, TLC, Json, IOUtils, SequencesExt
CONSTANTS NMAX, KT, SUBSIZES
FreeTonics == Names(KT)
TonicsOf(c) == CASE c \in MajorFamily -> MajorTonics [] c \in MinorFamily -> MinorTonics
                 [] c = "Chromatic" -> AllKeys [] OTHER -> FreeTonics
ScaleCases == {[kind |-> "scale", c |-> c, t |-> t, n |-> n] : c \in Classes, t \in Names(KT) \cup AllKeys, n \in 1..NMAX}
\* equality pool: the families that share note lists, every class once on C, and the chromatic scale in major and minor keys that
\* share a tonic (same class, same tonic, different notes)
EqPool == {<<c, t, n>> : c \in MinorFamily \cup {"Major", "Aeolian", "Ionian"}, t \in {<<"A">>, <<"C">>, <<"E">>}, n \in 1..2} \cup
          {<<c, <<"C">>, 1>> : c \in Classes \ {"Chromatic"}} \cup
          {<<"Chromatic", t, n>> : t \in {<<"C">>, <<"c">>, <<"A">>, <<"a">>, <<"E">>, <<"e">>, <<"B", "b">>, <<"b", "b">>}, n \in 1..2}
Subsets(S) == {T \in SUBSET S : Cardinality(T) \in SUBSIZES}
RecSets == UNION {Subsets(FamAsc[f]) \cup Subsets(FamDesc[f]) : f \in Family}
Cases == {x \in ScaleCases : x.t \in TonicsOf(x.c)} \cup
         {[kind |-> "eq", a |-> [c |-> a[1], t |-> a[2], n |-> a[3]], b |-> [c |-> b[1], t |-> b[2], n |-> b[3]]] : a \in EqPool, b \in EqPool} \cup
         {[kind |-> "rec", notes |-> SetToSeq(S)] : S \in RecSets} \cup
         {[kind |-> "rec", notes |-> RefAsc(f[1], f[2], 2)] : f \in Family} \cup {[kind |-> "rec", notes |-> RefDesc(f[1], f[2], 1) \o RefDesc(f[1], f[2], 1)] : f \in Family}
VARIABLE done
Init == done = ndJsonSerialize(IOEnv.OUT, SetToSeq(Cases))
Next == FALSE /\ done' = done
=============================================================================
