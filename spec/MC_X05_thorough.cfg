SPECIFICATION Spec
CONSTANTS N = 7
 Guarded = TRUE
 MaxVal = 11
 MaxLen = 4
INVARIANT MemoryIsSound
INVARIANT AnswersAreIndex
