SPECIFICATION Spec
POSTCONDITION Consumed
