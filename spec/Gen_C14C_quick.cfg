SPECIFICATION Spec
CONSTANTS D = 4
PROPERTY PropFrame
