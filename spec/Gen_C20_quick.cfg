SPECIFICATION Spec
CONSTANTS D = 10
