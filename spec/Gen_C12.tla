------------------------------ MODULE Gen_C12 ------------------------------
(* Behaviour generator for the container machine: "trans" = every transition   *)
(* (state, action) of the reachable graph; "hist" = every action sequence up   *)
(* to depth D (exhaustive, or random walks under tlc -simulate).               *)
EXTENDS MC_C12
CONSTANTS Mode, D
VARIABLE hist
GInit == nc = <<>> /\ hist = <<>> /\ pset = {} /\ last = [op |-> "init"]
GNext == \E a \in Actions :
           /\ nc' = Apply(nc, a)
           /\ Len(nc') <= MaxLen /\ (\A i \in 1..Len(nc') : nc'[i].o <= 6)
           /\ UNCHANGED <<pset, last>>
           /\ IF Mode = "trans"
              THEN hist' = hist /\ PrintT("@@" \o ToJson([state |-> nc, acts |-> <<a>>]))
              ELSE /\ Len(hist) < D /\ hist' = Append(hist, a)
                   /\ (Len(hist') = D => PrintT("@@" \o ToJson([state |-> <<>>, acts |-> hist'])))
GSpec == GInit /\ [][GNext]_<<nc, hist, pset, last>>
=============================================================================
