SPECIFICATION Spec
CONSTANTS MaxVoices = 2
 MaxBars = 2
