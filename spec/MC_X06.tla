------------------------------- MODULE MC_X06 -------------------------------
(* Two holders (a composition and a suite) under every history of bookkeeping calls;  *)
(* frame conditions as action properties; generator of histories.                      *)
EXTENDS Shelf, TLC, Json
CONSTANTS MaxLen, Emitting
VARIABLES st, hist
A0(op, h) == [op |-> op, h |-> h, x |-> 0, i |-> 0, s1 |-> "", s2 |-> ""]
Acts == UNION {
   {[A0("add", h) EXCEPT !.x = x] : x \in 0..2} \cup {[A0("plus", h) EXCEPT !.x = x] : x \in (IF h = 1 THEN {3} ELSE {0, 3})} \cup      \* composition + non-track means add_note (property C14)
   {[A0("set_item", h) EXCEPT !.x = x, !.i = i] : x \in {0, 4}, i \in 1..2} \cup
   {[A0("set_title", h) EXCEPT !.s1 = "T", !.s2 = "sub"], [A0("set_title_default", h) EXCEPT !.s1 = "T2"],
    [A0("set_author", h) EXCEPT !.s1 = "A", !.s2 = "a@b"], A0("empty", h), A0("reset", h)} : h \in 1..2}
Init == st = <<New("composition"), New("suite")>> /\ hist = <<>>
Step == Len(hist) < MaxLen /\ \E a \in Acts :
          /\ st' = (IF Refused(st, a) THEN st ELSE Apply(st, a)) /\ hist' = Append(hist, a)
          /\ (Emitting /\ Len(hist') = MaxLen => PrintT("@@" \o ToJson([acts |-> hist'])))
Spec == Init /\ [][Step]_<<st, hist>>
Last == hist'[Len(hist')]
\* a call on one holder never changes the other
OtherHolderUntouched == [][\A j \in 1..2 : j # Last.h => st'[j] = st[j]]_<<st, hist>>
\* the title page changes only through its setters (and reset); membership only through add / + / assignment / empty / reset
TitlePageFrame == [][\A j \in 1..2 : (st'[j].title # st[j].title \/ st'[j].subtitle # st[j].subtitle) => Last.op \in {"set_title", "set_title_default", "reset"}]_<<st, hist>>
MembersFrame == [][\A j \in 1..2 : st'[j].items # st[j].items => Last.op \in {"add", "plus", "set_item", "empty", "reset"}]_<<st, hist>>
\* a foreign object (identity 0) is never a member of a suite
NoForeignMemberInSuite == \A i \in 1..Len(st[2].items) : st[2].items[i] # 0
=============================================================================
