----------------------------- MODULE Trace_C18 -----------------------------
EXTENDS Sequencer, TLC, Json, IOUtils
Trace == ndJsonDeserialize(IOEnv.TRACE)
VARIABLES l, bad, nbad
N4(x) == [n |-> x.n, o |-> x.o, ch |-> x.ch, vel |-> x.vel]
Ent(e) == [t |-> e.t, rest |-> e.rest, notes |-> [i \in 1..Len(e.notes) |-> N4(e.notes[i])], bpm |-> e.bpm]
BarEntries(b) == [i \in 1..Len(b.entries) |-> Ent(b.entries[i])]
TrackVoice(t) == LET F(acc, b) == acc \o BarEntries(b) IN FoldLeft(F, <<>>, t.bars)
Evs(xs) == [i \in 1..Len(xs) |-> [k |-> xs[i].k, p |-> xs[i].p, ch |-> xs[i].ch, v |-> xs[i].v]]
\* voices and prelude of a playback call
VoicesOf(e) == CASE e.op \in {"play_Bar", "play_Track"} -> <<TrackVoice(e.prog.tracks[1])>>
                 [] OTHER -> [i \in 1..Len(e.prog.tracks) |-> TrackVoice(e.prog.tracks[i])]
Prelude(e) == IF e.op \in {"play_Tracks", "play_Composition"}
              THEN [i \in 1..Len(e.prog.tracks) |-> SEv("instr", IF e.prog.tracks[i].instr.kind = "midi" THEN e.prog.tracks[i].instr.nr ELSE 1,
                                                          IF "chans" \in DOMAIN e.in THEN e.in.chans[i] ELSE i, 0)]
              ELSE <<>>
Tol == 3
IsInstr(x) == x.k = "instr"
NotInstr(x) == x.k # "instr"
StripInstr(segs) == [i \in 1..Len(segs) |-> [evs |-> SelectSeq(segs[i].evs, NotInstr), sleep |-> segs[i].sleep]]
PlayClause(e) ==
    LET obs == Evs(e.events) exp == Expected(VoicesOf(e), e.prog.bpm, Prelude(e))
        os == Compact(Segments(obs)) es == Compact(exp.segs) IN
    IF ~e.ok THEN "playback-raised"
    ELSE IF Evs(e.observer) # obs THEN "observer-receives-the-same-events"
    ELSE IF Prelude(e) # <<>> /\ (Len(obs) < Len(Prelude(e)) \/ SubSeq(obs, 1, Len(Prelude(e))) # Prelude(e)) THEN "instrument-announced-first-per-track"
    ELSE IF ~Balanced(obs, {}) THEN "play-stop-balanced"
    ELSE IF Len(os) # Len(es) \/ \E i \in 1..Len(os) : ~SameBag(os[i].evs, es[i].evs) THEN "one-play-and-one-stop-per-note-at-its-instants"
    ELSE IF ~SameSegs(os, es, Tol) THEN "entry-durations"
    ELSE IF TotalSleep(obs) - TotalSleep(Evs([i \in 1..Len(es) |-> [k |-> "sleep", p |-> es[i].sleep, ch |-> 0, v |-> 0]])) \notin -10..10 THEN "total-time-slept"
    ELSE IF e.ret # exp.bpm THEN "returns-final-tempo"
    ELSE "ok"
\* parallel playback of voices whose rhythms differ is reported under its own clause family
Rhythm(voice) == [i \in 1..Len(voice) |-> voice[i].t]
UnequalRhythms(e) == \E i, j \in 1..Len(VoicesOf(e)) : Rhythm(VoicesOf(e)[i]) # Rhythm(VoicesOf(e)[j])
Clause(e) ==
  CASE e.op \in {"play_Bar", "play_Track", "play_Bars", "play_Tracks", "play_Composition"} ->
         IF PlayClause(e) # "ok" /\ e.op \in {"play_Bars", "play_Tracks", "play_Composition"} /\ UnequalRhythms(e)
         THEN "parallel-voices-with-different-rhythms" ELSE PlayClause(e)
    [] e.op = "play_Note" ->
         IF e.ok /\ Evs(e.events) = <<SEv("play", MidiPitch(N4(e.in.note)), e.in.note.ch, e.in.note.vel), SEv("stop", MidiPitch(N4(e.in.note)), e.in.note.ch, 0)>>
               /\ Evs(e.observer) = Evs(e.events) THEN "ok" ELSE "single-note-play-and-stop"
    [] e.op = "play_NoteContainer" ->
         IF e.ok /\ Evs(e.events) = [i \in 1..Len(e.in.notes) |-> SEv("play", MidiPitch(N4(e.in.notes[i])), e.in.notes[i].ch, e.in.notes[i].vel)] \o
                                     [i \in 1..Len(e.in.notes) |-> SEv("stop", MidiPitch(N4(e.in.notes[i])), e.in.notes[i].ch, 0)]
               /\ Evs(e.observer) = Evs(e.events) THEN "ok" ELSE "container-play-and-stop"
    [] e.op = "observers" ->     \* phase 1: A attached twice and B once; phase 2: A detached
         IF e.ok /\ Evs(e.out.p1.a) = Evs(e.out.p1.hook) /\ Evs(e.out.p1.b) = Evs(e.out.p1.hook) /\ Len(e.out.p1.hook) > 0
               /\ e.out.p2.a = <<>> /\ Evs(e.out.p2.b) = Evs(e.out.p2.hook) /\ Len(e.out.p2.hook) > 0
               /\ Evs(e.out.p3.a) = Evs(e.out.p3.hook) /\ Evs(e.out.p3.b) = Evs(e.out.p3.hook) /\ Len(e.out.p3.hook) > 0      \* phase 3: A attached again
               /\ e.out.listeners = <<1, 2, 1>>
         THEN "ok" ELSE "attach-detach"
    [] e.op = "cc" ->
         LET refused == e.in.control < 0 \/ e.in.control > 128 \/ e.in.value < 0 \/ e.in.value > 128 IN
         IF ~e.ok THEN "control-change"
         ELSE IF refused THEN (IF e.out.ret = FALSE /\ e.out.events = <<>> /\ e.out.observer = <<>> THEN "ok" ELSE "control-change-refused")
         ELSE (IF e.out.ret = TRUE /\ Evs(e.out.events) = <<SEv("cc", e.in.control, e.in.channel, e.in.value)>> /\ Evs(e.out.observer) = Evs(e.out.events) THEN "ok" ELSE "control-change-emitted")
    [] e.op = "cc_fraction" ->     \* control = cn/cd, value = vn/vd (cd, vd > 0): a number below 0 or above 128 is refused whether integral or not
         LET refused == e.in.cn < 0 \/ e.in.cn > 128 * e.in.cd \/ e.in.vn < 0 \/ e.in.vn > 128 * e.in.vd IN
         IF ~refused THEN "ok"
         ELSE IF e.ok /\ e.out.ret = FALSE /\ e.out.events = <<>> /\ e.out.observer = <<>> THEN "ok" ELSE "control-change-refused"
    [] e.op = "build" -> "ok"
    [] OTHER -> "unknown-op"
W == INSTANCE Walk
Spec == W!Spec
Consumed == W!Consumed
=============================================================================
