------------------------------- MODULE Gen_X02 -------------------------------
(* Generators of foreign SMF files: Mode "all" prints every small file of MC_X02 with its bytes;  *)
(* Mode "walk" builds one longer file field by field (few successors per step, for -simulate)      *)
(* and prints it from a single-successor Emit step.                                                  *)
EXTENDS MC_X02, Json
CONSTANTS Mode, MaxEvents
VARIABLES st
Doc(f, ru) == [f |-> f, ru |-> ru, bytes |-> EncFile(f, ru)]
AllNext == call.op = "init" /\ UNCHANGED st /\ \E fmt \in {0, 1}, dv \in {96, 480}, ru \in BOOLEAN, t1 \in TracksOf(2), t2 \in TracksOf(1) :
    LET f == [format |-> fmt, division |-> dv, tracks |-> IF fmt = 0 THEN <<t1>> ELSE <<t1, t2>>] IN
    /\ call' = [op |-> "file", f |-> f, ru |-> ru]
    /\ PrintT("@@" \o ToJson(Doc(f, ru)))
\* ---- walk: st = [ph, fmt, dv, ru, tracks (finished), cur (events of the open track), e (event under construction)]
Deltas == {0, 1, 127, 128, 8192, 16383, 16384, 2097151, 2097152}
DataVals == {0, 1, 63, 64, 127}
Kinds == {"on", "off", "at", "cc", "pc", "cp", "pb", "meta"}
MetaTypes == {1, 3, 6, 47 + 1, 81, 88, 89, 127}
MetaData(ty) == CASE ty = 81 -> {<<7, 161, 32>>, <<0, 0, 1>>} [] ty = 88 -> {<<4, 2, 24, 8>>, <<7, 3, 36, 8>>} [] ty = 89 -> {<<0, 0>>, <<249, 1>>, <<7, 0>>}
                  [] OTHER -> {<<>>, <<65>>, <<72, 105, 33>>}
WInit == st = [ph |-> "head", fmt |-> 0, dv |-> 0, ru |-> FALSE, tracks |-> <<>>, cur |-> <<>>, e |-> AEv(0, "on", 0, 0, 0, <<>>)]
WHead == st.ph = "head" /\ \E fmt \in {0, 1, 2}, dv \in {1, 96, 480, 32767}, ru \in BOOLEAN : st' = [st EXCEPT !.ph = "kind", !.fmt = fmt, !.dv = dv, !.ru = ru]
WKind == st.ph = "kind" /\ Len(st.cur) < MaxEvents /\ \E k \in Kinds : st' = [st EXCEPT !.ph = IF k = "meta" THEN "mtype" ELSE "chan", !.e = AEv(0, k, 0, 0, 0, <<>>)]
WChan == st.ph = "chan" /\ \E ch \in {0, 1, 9, 15} : st' = [st EXCEPT !.ph = "a", !.e.ch = ch]
WA == st.ph = "a" /\ \E a \in DataVals : st' = [st EXCEPT !.ph = IF OneData(st.e.k) THEN "delta" ELSE "b", !.e.a = a]
WB == st.ph = "b" /\ \E b \in DataVals : st' = [st EXCEPT !.ph = "delta", !.e.b = b]
WMType == st.ph = "mtype" /\ \E ty \in MetaTypes : st' = [st EXCEPT !.ph = "mdata", !.e.a = ty]
WMData == st.ph = "mdata" /\ \E d \in MetaData(st.e.a) : st' = [st EXCEPT !.ph = "delta", !.e.data = d]
WDelta == st.ph = "delta" /\ \E d \in Deltas : st' = [st EXCEPT !.ph = "kind", !.cur = Append(@, [st.e EXCEPT !.d = d])]
WClose == st.ph = "kind" /\ Len(st.tracks) < (IF st.fmt = 0 THEN 1 ELSE 3)
          /\ st' = [st EXCEPT !.tracks = Append(@, st.cur), !.cur = <<>>, !.ph = IF st.fmt = 0 \/ Len(st.tracks) = 2 THEN "emit" ELSE "kind"]
WEmitNow == st.ph = "kind" /\ st.cur = <<>> /\ Len(st.tracks) >= 1 /\ st' = [st EXCEPT !.ph = "emit"]
WEmit == st.ph = "emit" /\ st' = [st EXCEPT !.ph = "done"]
         /\ PrintT("@@" \o ToJson(Doc([format |-> st.fmt, division |-> st.dv, tracks |-> st.tracks], st.ru)))
WalkNext == UNCHANGED call /\ (WHead \/ WKind \/ WChan \/ WA \/ WB \/ WMType \/ WMData \/ WDelta \/ WClose \/ WEmitNow \/ WEmit)
GInit == Init /\ WInit
GNext == IF Mode = "all" THEN AllNext ELSE WalkNext
GSpec == GInit /\ [][GNext]_<<call, st>>
=============================================================================
