SPECIFICATION Spec
INVARIANT ImplMeetsLaw
