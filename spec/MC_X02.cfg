SPECIFICATION Spec
INVARIANT ReaderDecodesWriter
INVARIANT RunningMatters
