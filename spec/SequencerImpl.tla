---------------------------- MODULE SequencerImpl ----------------------------
(* Implementation-shaped model of Sequencer.play_Bars (the parallel scheduler  *)
(* with tick / cur[] / playing, as it is in the code today), in integer ticks,  *)
(* and of a repaired design (Sched).  Both are functions from the voices to the *)
(* emitted event list, so that TLC can (i) compare each with the ideal          *)
(* semantics of Sequencer.tla on all pairs of small bars and (ii) compare the   *)
(* model of today's code with the events the real code emits (conformance).     *)
EXTENDS Sequencer

SleepEv(t) == SEv("sleep", t, 0, 0)
PlayEvs(e) == IF e.rest THEN <<>> ELSE [j \in 1..Len(e.notes) |-> SEv("play", MidiPitch(e.notes[j]), e.notes[j].ch, e.notes[j].vel)]
StopEvs(e) == IF e.rest THEN <<>> ELSE [j \in 1..Len(e.notes) |-> SEv("stop", MidiPitch(e.notes[j]), e.notes[j].ch, 0)]
MinOf(S) == CHOOSE m \in S : \A x \in S : m <= x
Scale(t, bpm0, bpm) == RoundHalfEven(t * bpm0, bpm)

\* ---- today's algorithm.  state: [tick, cur (per voice, 1-based), playing (seq of [rem, v, i]), out, bpm, ok]
RECURSIVE ImplLoop(_, _, _, _)
ImplLoop(voices, barlen, bpm0, st) ==
    IF st.tick >= barlen \/ st.n > 64 THEN st
    ELSE
    LET nv == Len(voices)
        starters == {v \in 1..nv : StartOf(voices[v], st.cur[v]) <= st.tick}
        \* play the current entry of every voice whose start has been reached (again and again while it is the current one)
        F(acc, v) == IF v \in starters
                     THEN LET e == voices[v][st.cur[v]] IN
                          [out |-> acc.out \o PlayEvs(e), playing |-> Append(acc.playing, [rem |-> e.t, v |-> v, i |-> st.cur[v]]),
                           bpm |-> IF ~e.rest /\ e.bpm > 0 THEN e.bpm ELSE acc.bpm]
                     ELSE acc
        a == FoldLeft(F, [out |-> st.out, playing |-> st.playing, bpm |-> st.bpm], [v \in 1..nv |-> v])
    IN IF starters = {} /\ a.playing = <<>> THEN [st EXCEPT !.ok = FALSE]
       ELSE
       LET shortest == IF starters # {} THEN MinOf({voices[v][st.cur[v]].t : v \in starters})
                       ELSE MinOf({a.playing[k].rem : k \in 1..Len(a.playing)})
           out1 == Append(a.out, SleepEv(Scale(shortest, bpm0, a.bpm)))
           \* everything whose remaining length is used up is stopped and its voice advances (if it can)
           G(acc, p) == IF p.rem - shortest > 0 THEN [acc EXCEPT !.playing = Append(@, [p EXCEPT !.rem = @ - shortest])]
                        ELSE [acc EXCEPT !.out = @ \o StopEvs(voices[p.v][p.i]),
                                         !.cur[p.v] = IF @ < Len(voices[p.v]) THEN @ + 1 ELSE @]
           b == FoldLeft(G, [out |-> out1, playing |-> <<>>, cur |-> st.cur], a.playing)
       IN ImplLoop(voices, barlen, bpm0, [tick |-> st.tick + shortest, cur |-> b.cur, playing |-> b.playing, out |-> b.out, bpm |-> a.bpm, ok |-> TRUE, n |-> st.n + 1])
\* the final clean-up removes from the list it iterates: every other remaining element is stopped
ImplCleanup(voices, st) == LET idx == {k \in 1..Len(st.playing) : k % 2 = 1} IN
    FoldLeft(LAMBDA acc, k : IF k \in idx THEN acc \o StopEvs(voices[st.playing[k].v][st.playing[k].i]) ELSE acc, st.out, [k \in 1..Len(st.playing) |-> k])
ImplPlayBars(voices, barlen, bpm0) ==
    LET st == ImplLoop(voices, barlen, bpm0, [tick |-> 0, cur |-> [v \in 1..Len(voices) |-> 1], playing |-> <<>>, out |-> <<>>, bpm |-> bpm0, ok |-> TRUE, n |-> 0])
    IN [out |-> ImplCleanup(voices, st), bpm |-> st.bpm]

\* ---- a repaired design: stop what ends now, start what starts now, sleep to the nearest end
RECURSIVE SchedLoop(_, _, _)
SchedLoop(voices, bpm0, st) ==
    LET nv == Len(voices)
        ending == {k \in 1..Len(st.playing) : st.playing[k].end = st.tick}
        out1 == FoldLeft(LAMBDA acc, k : IF k \in ending THEN acc \o StopEvs(voices[st.playing[k].v][st.playing[k].i]) ELSE acc, st.out, [k \in 1..Len(st.playing) |-> k])
        keep == SelectSeq(st.playing, LAMBDA p : p.end # st.tick)
        starters == {v \in 1..nv : st.cur[v] <= Len(voices[v]) /\ StartOf(voices[v], st.cur[v]) = st.tick}
        F(acc, v) == IF v \in starters
                     THEN LET e == voices[v][st.cur[v]] IN
                          [out |-> acc.out \o PlayEvs(e), playing |-> Append(acc.playing, [end |-> st.tick + e.t, v |-> v, i |-> st.cur[v]]),
                           bpm |-> IF ~e.rest /\ e.bpm > 0 THEN e.bpm ELSE acc.bpm, cur |-> [acc.cur EXCEPT ![v] = @ + 1]]
                     ELSE acc
        a == FoldLeft(F, [out |-> out1, playing |-> keep, bpm |-> st.bpm, cur |-> st.cur], [v \in 1..nv |-> v])
    IN IF a.playing = <<>> THEN [out |-> a.out, bpm |-> a.bpm]
       ELSE LET next == MinOf({a.playing[k].end : k \in 1..Len(a.playing)}) IN
            SchedLoop(voices, bpm0, [tick |-> next, cur |-> a.cur, playing |-> a.playing, bpm |-> a.bpm,
                                     out |-> Append(a.out, SleepEv(Scale(next - st.tick, bpm0, a.bpm)))])
SchedPlayBars(voices, bpm0) == SchedLoop(voices, bpm0, [tick |-> 0, cur |-> [v \in 1..Len(voices) |-> 1], playing |-> <<>>, out |-> <<>>, bpm |-> bpm0])

\* agreement with the ideal semantics
Agrees(evs, voices, bpm0) == LET ex == Expected(voices, bpm0, <<>>) IN
    Balanced(evs, {}) /\ SameSegs(Compact(Segments(evs)), Compact(ex.segs), 3)
=============================================================================
