SPECIFICATION Spec
POSTCONDITION Consumed
