INIT Init
NEXT Next
CONSTANTS
 Mids <- T_Mids
