---------------------------- MODULE NoteContainer ----------------------------
(* The NoteContainer as a state machine (property C12): the state is the      *)
(* sequence of (name, octave) notes; every public add / remove form is an      *)
(* action.  Operators are written as functions of the state so that the same   *)
(* definitions serve the model (MC_C12), the generators and trace validation.  *)
EXTENDS NoteObj, SequencesExt

\* ---- helpers
Pitches(nc) == {NumOf(nc[i]) : i \in 1..Len(nc)}
HasPitch(nc, p) == p \in Pitches(nc)
\* insert x keeping the sequence sorted by pitch (x's pitch is not present)
InsertSorted(nc, x) ==
    LET k == Cardinality({i \in 1..Len(nc) : NumOf(nc[i]) < NumOf(x)}) IN
    SubSeq(nc, 1, k) \o <<x>> \o SubSeq(nc, k + 1, Len(nc))
Keep(nc, P(_)) == SelectSeq(nc, P)

\* ---- additions: a note equal in pitch to a member is not added (first spelling wins)
AddNote(nc, x) == IF HasPitch(nc, NumOf(x)) THEN nc ELSE InsertSorted(nc, x)
\* voicing rule for a bare name: octave 4 in an empty container, otherwise the octave of the
\* top note unless that would put it below the top note, then one octave higher
BareOctave(nc, name) == IF nc = <<>> THEN 4
                        ELSE LET top == nc[Len(nc)] IN
                             IF Num(name, top.o) < NumOf(top) THEN top.o + 1 ELSE top.o
AddBare(nc, name) == AddNote(nc, [n |-> name, o |-> BareOctave(nc, name)])
\* list items: [t |-> "bare", n], [t |-> "pair", n, o], [t |-> "obj", n, o]
AddItem(nc, it) == IF it.t = "bare" THEN AddBare(nc, it.n) ELSE AddNote(nc, [n |-> it.n, o |-> it.o])
AddList(nc, items) == FoldLeft(AddItem, nc, items)
AddContainer(nc, other) == FoldLeft(AddNote, nc, other)

\* ---- removals
RemoveName(nc, name) == LET P(x) == x.n # name IN Keep(nc, P)
RemoveNameOct(nc, name, o) == LET P(x) == ~(x.n = name /\ x.o = o) IN Keep(nc, P)
RemovePitch(nc, x) == LET P(y) == NumOf(y) # NumOf(x) IN Keep(nc, P)
RemoveItem(nc, it) == IF it.t = "bare" THEN RemoveName(nc, it.n) ELSE RemovePitch(nc, [n |-> it.n, o |-> it.o])
RemoveList(nc, items) == FoldLeft(RemoveItem, nc, items)

\* ---- one step of the machine, selected by the action record
Apply(nc, a) ==
  CASE a.op = "empty" -> <<>>
    [] a.op = "add_note_obj" -> AddNote(nc, [n |-> a.n, o |-> a.o])
    [] a.op = "add_bare" -> AddBare(nc, a.n)
    [] a.op = "add_name_oct" -> AddNote(nc, [n |-> a.n, o |-> a.o])
    [] a.op \in {"add_list", "plus_list"} -> AddList(nc, a.items)
    [] a.op \in {"add_container", "plus_container"} -> AddContainer(nc, a.notes)
    [] a.op = "remove_name" -> RemoveName(nc, a.n)
    [] a.op = "remove_name_oct" -> RemoveNameOct(nc, a.n, a.o)
    [] a.op = "remove_obj" -> RemovePitch(nc, [n |-> a.n, o |-> a.o])
    [] a.op \in {"remove_list", "minus_list"} -> RemoveList(nc, a.items)

\* ---- invariants of the property
Sorted(nc) == \A i \in 1..(Len(nc) - 1) : NumOf(nc[i]) < NumOf(nc[i + 1])      \* strict: also duplicate-free
\* voicing of a bare name that was added: at or above the previous top note and less than an octave above it
VoicingOk(nc, name) == nc = <<>> \/ HasPitch(nc, Num(name, BareOctave(nc, name)))
                       \/ LET d == Num(name, BareOctave(nc, name)) - NumOf(nc[Len(nc)]) IN d >= 0 /\ d < 12

\* ---- read-only observations
UniqueNames(nc) == LET F(acc, x) == IF \E i \in 1..Len(acc) : acc[i] = x.n THEN acc ELSE Append(acc, x.n) IN FoldLeft(F, <<>>, nc)
AllPairs(nc, P(_, _)) == \A i, j \in 1..Len(nc) : i < j => P(nc[i].n, nc[j].n)
NcConsonant(nc, f) == LET P(a, b) == Consonant(a, b, f) IN AllPairs(nc, P)
NcPerfect(nc, f) == LET P(a, b) == PerfectConsonant(a, b, f) IN AllPairs(nc, P)
NcImperfect(nc) == LET P(a, b) == ImperfectConsonant(a, b) IN AllPairs(nc, P)
NcAllDissonant(nc, f) == LET P(a, b) == ~Consonant(a, b, ~f) IN AllPairs(nc, P)
=============================================================================
