SPECIFICATION Spec
CONSTANTS MaxLen = 4
 Emitting = FALSE
INVARIANT TicksMonotone
INVARIANT NonNegative
PROPERTY DeltaOnlyBySetters
PROPERTY ResetKeeps
