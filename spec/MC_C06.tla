------------------------------ MODULE MC_C06 ------------------------------
EXTENDS Chords, TLC
VARIABLE call
Init == call = [op |-> "init"]
Next == call.op = "init" /\
  \/ \E s \in DocumentedShorthands \cup {"M11"}, r \in N35 : call' = [op |-> "chord", s |-> s, r |-> r]
  \/ \E a \in N21, b \in N21, c \in N21 : a # b /\ b # c /\ c # a /\ call' = [op |-> "join", y |-> <<a, b>>, x |-> <<b, c, a>>]
Spec == Init /\ [][Next]_call
RefSatisfiesLaws ==
  CASE call.op = "chord" ->
         /\ LawChord(Meaning(call.s), call.r, RefChord(Meaning(call.s), call.r))
         /\ \A k \in 0..Len(Formula(Meaning(call.s))) : Rotate(Rotate(RefChord(Meaning(call.s), call.r), k), Len(Formula(Meaning(call.s))) + 1 - k) = RefChord(Meaning(call.s), call.r)
    [] call.op = "join" ->
         /\ PolyJoin(call.y, call.x) = call.y \o Tail(call.x)
         /\ PolyJoin(<<>>, call.x) = call.x
    [] OTHER -> TRUE
\* the formula table distinguishes meanings: two different meanings never denote the same note list (on C)
Theorems == \A s1, s2 \in DocumentedShorthands :
               RefChord(Meaning(s1), <<"C">>) = RefChord(Meaning(s2), <<"C">>) => Meaning(s1) = Meaning(s2)
=============================================================================
