------------------------------ MODULE Gen_X09 ------------------------------
EXTENDS GetInterval, TLC, Json, IOUtils, SequencesExt
CONSTANTS Notes, Steps
Q_Notes == N21 \cup {<<"C","#","b">>, <<"F","b","#","#">>}
T_Notes == N35 \cup {<<"C","#","b">>, <<"F","b","#","#">>, <<"B","#","#","#">>, <<"E","b","b","b">>}
Q_Steps == -13..14
T_Steps == -25..38
BadNotes == {<<"H">>, <<"c">>, <<"C","x">>, <<"1">>}
BadKeys == {<<"H">>, <<"a">>, <<"C","#","#">>, <<"F","b">>}
Cases == {[kind |-> "get", key |-> k, note |-> nt, n |-> n] : k \in MajorKeys, nt \in Notes, n \in Steps} \cup
         {[kind |-> "default", note |-> nt, n |-> n] : nt \in Notes, n \in Steps} \cup
         {[kind |-> "badkey", key |-> k, note |-> <<"C">>, n |-> 3] : k \in BadKeys}
VARIABLE done
Init == done = ndJsonSerialize(IOEnv.OUT, SetToSeq(Cases))
Next == FALSE /\ done' = done
=============================================================================
