----------------------------- MODULE Trace_X02 -----------------------------
(* Extension X02: the real low-level reader on files generated from SmfWrite. *)
EXTENDS SmfWrite, TLC, Json, IOUtils
Trace == ndJsonDeserialize(IOEnv.TRACE)
VARIABLES l, bad, nbad
A6(x) == AEv(x.d, x.k, x.ch, x.a, x.b, x.data)
Tr(t) == [i \in 1..Len(t) |-> A6(t[i])]
Eot == AEv(0, "meta", 0, 47, 0, <<>>)
\* the reader reports the end-of-track meta event as an ordinary event
Want(f) == [i \in 1..Len(f.tracks) |-> Tr(f.tracks[i]) \o <<Eot>>]
Got(o) == [i \in 1..Len(o.tracks) |-> Tr(o.tracks[i])]
\* does the encoding of this file actually use running status somewhere?
UsesRunning(e) == e.in.ru /\ Len(EncFile([format |-> e.in.f.format, division |-> e.in.f.division, tracks |-> Want(e.in.f)], TRUE))
                             < Len(EncFile([format |-> e.in.f.format, division |-> e.in.f.division, tracks |-> Want(e.in.f)], FALSE))
\* the same event list where every two-data-byte event whose second byte is 0 is reported as a note-off
ZeroAsOff(t) == [i \in 1..Len(t) |-> IF t[i].k \in {"on", "at", "cc", "pb"} /\ t[i].b = 0 THEN [t[i] EXCEPT !.k = "off"] ELSE t[i]]
OnZeroAsOff(t) == [i \in 1..Len(t) |-> IF t[i].k = "on" /\ t[i].b = 0 THEN [t[i] EXCEPT !.k = "off"] ELSE t[i]]
Clause(e) ==
    LET f == e.in.f want == Want(f) IN
    IF ~e.ok THEN (IF UsesRunning(e) THEN "running-status-not-read" ELSE "well-formed-file-rejected")
    ELSE LET got == Got(e.out) IN
         IF e.out.format # f.format \/ e.out.ntrks # Len(f.tracks) \/ e.out.fps \/ e.out.division # f.division THEN "header-fields"
         ELSE IF got = want THEN "ok"
         \* reading a note-on with velocity 0 as a note-off is the convention the reader documents
         ELSE IF got = [i \in 1..Len(want) |-> OnZeroAsOff(want[i])] THEN "ok"
         ELSE IF got = [i \in 1..Len(want) |-> ZeroAsOff(want[i])] THEN "zero-second-byte-read-as-note-off"
         ELSE IF UsesRunning(e) THEN "running-status-not-read"
         ELSE "events-as-written"
W == INSTANCE Walk
Spec == W!Spec
Consumed == W!Consumed
=============================================================================
