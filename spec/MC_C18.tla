------------------------------ MODULE MC_C18 ------------------------------
(* The ideal playback semantics is balanced for all pairs of small bars with   *)
(* equal and unequal rhythms, and its total sleep is the length of the music.  *)
EXTENDS Sequencer, TLC
VARIABLE call
Init == call = [op |-> "init"]
Q == L \div 4
Nt(ch, o) == [n |-> <<"C">>, o |-> o, ch |-> ch, vel |-> 64]
E(t, ch, o, rest, bpm) == [t |-> t, rest |-> rest, notes |-> IF rest THEN <<>> ELSE <<Nt(ch, o)>>, bpm |-> bpm]
Rhythms == {<<4>>, <<2, 2>>, <<1, 1, 2>>, <<2, 1, 1>>, <<1, 1, 1, 1>>, <<3, 1>>, <<1, 3>>}
VoiceOf(r, ch, restAt, bpmAt) == [i \in 1..Len(r) |-> E(r[i] * Q, ch, 3 + i, i = restAt, IF i = bpmAt THEN 90 ELSE 0)]
Next == call.op = "init" /\ \E r1 \in Rhythms, r2 \in Rhythms, ra \in 0..2, b \in 0..2 :
            call' = [op |-> "pair", voices |-> <<VoiceOf(r1, 1, ra, b), VoiceOf(r2, 2, 0, 0)>>]
Spec == Init /\ [][Next]_call
FlatEvs(segs) == LET F(acc, s) == acc \o s.evs IN FoldLeft(F, <<>>, segs)
Theorems == call.op = "pair" =>
    LET ex == Expected(call.voices, 120, <<>>) IN
    /\ Balanced(FlatEvs(ex.segs), {})
    /\ Compact(ex.segs)[1].evs # <<>>
    \* without a tempo change the total sleep is exactly the length of the music (one whole note)
    /\ ((\A i \in 1..Len(call.voices[1]) : call.voices[1][i].bpm = 0 \/ call.voices[1][i].rest) =>
            FoldLeft(LAMBDA a, s : a + s.sleep, 0, ex.segs) = L)
=============================================================================
