SPECIFICATION Spec
CONSTANTS D = 4
 Emitting = FALSE
INVARIANT InvPrefix
INVARIANT InvRange
INVARIANT InvNames
INVARIANT InvNamesCover
PROPERTY ChangeFrame
PROPERTY ChangeIdempotent
