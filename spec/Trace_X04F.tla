----------------------------- MODULE Trace_X04F -----------------------------
(* Extension X04, file level: the rendered bytes of a two-track MidiFile after every step. *)
EXTENDS MidiTrackCalls, TLC, Json, IOUtils
Trace == ndJsonDeserialize(IOEnv.TRACE)
VARIABLES l, st, bad, nbad
\* split the bytes after the header into chunks: sequence of byte sequences, or <<"bad">> marker by ok flag
RECURSIVE Chunks(_, _, _)
Chunks(B, pos, acc) ==
    IF pos = Len(B) + 1 THEN [ok |-> TRUE, cs |-> acc]
    ELSE IF ~IsTag(B, pos, MTrk) \/ U32(B, pos + 4) < 0 \/ pos + 7 + U32(B, pos + 4) > Len(B) THEN [ok |-> FALSE, cs |-> acc]
    ELSE Chunks(B, pos + 8 + U32(B, pos + 4), Append(acc, SubSeq(B, pos, pos + 7 + U32(B, pos + 4))))
Clause(s0, line) ==
    LET s == IF line.first THEN <<Start(120), Start(90)>> ELSE s0
        exp == FApply(s, [op |-> line.in.op, i |-> line.in.i]) B == line.out h == Header(B) c == Chunks(B, 15, <<>>) IN
    IF ~line.ok THEN "rendering-raised"
    ELSE IF ~h.ok \/ h.format # 1 \/ h.division # 72 THEN "file-header"
    ELSE IF ~c.ok THEN "chunk-framing"
    ELSE IF \E j \in 1..Len(c.cs) : ~DecodeTrackChunk(c.cs[j]).ok THEN "track-chunk-well-formed"
    ELSE IF [j \in 1..Len(c.cs) |-> DecodeTrackChunk(c.cs[j]).evs] # Rendered(exp) THEN "chunks-are-the-non-empty-tracks"
    ELSE IF h.ntrks # Len(c.cs) THEN "header-declares-the-chunks-that-follow"
    ELSE "ok"
NextState(s0, line) == LET s == IF line.first THEN <<Start(120), Start(90)>> ELSE s0 IN FApply(s, [op |-> line.in.op, i |-> line.in.i])
InitState == <<Start(120), Start(90)>>
W == INSTANCE WalkS
Spec == W!Spec
Consumed == W!Consumed
=============================================================================
