SPECIFICATION Spec
POSTCONDITION Consumed
