INIT Init
NEXT Next
CONSTANTS NMAX = 4
 KT = 3
 SUBSIZES = {1, 2, 3, 7}
