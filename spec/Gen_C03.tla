------------------------------ MODULE Gen_C03 ------------------------------
EXTENDS Intervals, TLC, Json, IOUtils, SequencesExt
CONSTANTS KX     \* extra (mixed-order) names of this length for the letter/semitone clauses
Lists == {<<>>, <<<<"C">>>>, << <<"C">>, <<"E">> >>, << <<"C">>, <<"E","b">>, <<"G">> >>,
          << <<"A">>, <<"A">>, <<"B","#">>, <<"A">> >>, << <<"F","#">>, <<"C">>, <<"G","b","b">>, <<"D">>, <<"E">> >>}
Cases == {[kind |-> "pair", a |-> a, b |-> b] : a \in N35, b \in N35} \cup
         {[kind |-> "sh", n |-> n, sh |-> sh, rt |-> TRUE] : n \in N35, sh \in Shorthands} \cup
         {[kind |-> "sh", n |-> n, sh |-> sh, rt |-> FALSE] : n \in Names(KX) \ N35, sh \in Shorthands} \cup
         {[kind |-> "list", xs |-> xs] : xs \in Lists}
VARIABLE done
Init == done = ndJsonSerialize(IOEnv.OUT, SetToSeq(Cases))
Next == FALSE /\ done' = done
=============================================================================
