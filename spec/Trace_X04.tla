----------------------------- MODULE Trace_X04 -----------------------------
(* Extension X04: every call on a real MidiTrack is the step the call machine takes. *)
EXTENDS MidiTrackCalls, TLC, Json, IOUtils
Trace == ndJsonDeserialize(IOEnv.TRACE)
VARIABLES l, st, bad, nbad
N4(x) == [n |-> x.n, o |-> x.o, ch |-> x.ch, vel |-> x.vel]
Ent(e) == [t |-> e.t, rest |-> e.rest, notes |-> [i \in 1..Len(e.notes) |-> N4(e.notes[i])], bpm |-> e.bpm]
Act(line) == LET a == line.in IN
    [op |-> a.op, n |-> a.n, notes |-> [i \in 1..Len(a.notes) |-> N4(a.notes[i])], ch |-> a.ch, instr |-> a.instr, bank |-> a.bank, bpm |-> a.bpm,
     meter |-> <<a.meter[1], a.meter[2]>>, key |-> a.key, txt |-> a.txt, entries |-> [i \in 1..Len(a.entries) |-> Ent(a.entries[i])]]
Clause(s, line) ==
    LET exp == Call(s, Act(line)) IN
    IF ~line.ok THEN "call-raised"
    ELSE IF ~line.obs_ok THEN "observation-raised"
    ELSE LET d == DecodeTrackChunk(line.obs.bytes) IN
         IF ~d.ok THEN "track-chunk-well-formed"
         ELSE IF d.evs # exp.out THEN "events-of-the-call-machine"
         ELSE IF line.obs.delta # exp.delta THEN "pending-delta"
         ELSE IF line.obs.delay # exp.delay THEN "rest-delay"
         ELSE IF line.obs.chg # exp.chg \/ line.obs.instr # exp.instr THEN "armed-instrument"
         ELSE "ok"
\* follow the machine, re-synchronised with everything that was observed
NextState(s, line) ==
    LET exp == Call(s, Act(line)) IN
    IF ~line.obs_ok THEN exp
    ELSE LET d == DecodeTrackChunk(line.obs.bytes) IN
         IF ~d.ok THEN exp
         ELSE [tick |-> IF d.evs = <<>> THEN 0 ELSE d.evs[Len(d.evs)].tick, delta |-> line.obs.delta, delay |-> line.obs.delay,
               chg |-> line.obs.chg, instr |-> line.obs.instr, out |-> d.evs]
InitState == W0(120)
W == INSTANCE WalkS
Spec == W!Spec
Consumed == W!Consumed
=============================================================================
