------------------------------ MODULE Gen_C08 ------------------------------
EXTENDS Harmony, TLC, Json, IOUtils
CONSTANTS PrefixKeys, MaxPrefix, ProgLen
SfxSet == DocumentedShorthands \cup {"7"}
Prefix(a) == IF a >= 0 THEN Rep("#", a) ELSE Rep("b", 0 - a)
PKeys == IF PrefixKeys = "all" THEN AllKeys
         ELSE {<<"C">>, <<"a">>, <<"F","#">>, <<"e","b">>, <<"B","b">>, <<"c","#">>, <<"C","b">>, <<"G">>}
ProgAlphabet == {<<"I">>, <<"V","7">>, <<"b","V","I","I">>, <<"V","I","I">>, <<"#","I","V","d","i","m","7">>, <<"i","v","m","7">>,
                 <<"b","b","V","I","I">>, <<"I","I">>, <<"b","I","I">>, <<"V","I","I","7">>, <<"#","V","I","I","7">>}
SubSuffixes == {"", "7", "m", "m7", "M", "M7", "dim", "dim7"}
Cases ==
  {[kind |-> "diatonic", k |-> k, d |-> d] : k \in AllKeys, d \in 1..7} \cup
  {[kind |-> "numeral", k |-> k, d |-> d, acc |-> a, prefix |-> Prefix(a), suffix |-> s] :
       k \in PKeys, d \in 1..7, a \in (0 - MaxPrefix)..MaxPrefix, s \in SfxSet} \cup
  {[kind |-> "proglist", k |-> k, prog |-> p] : k \in {<<"C">>, <<"e","b">>}, p \in UNION {[1..n -> ProgAlphabet] : n \in 2..ProgLen}} \cup
  {[kind |-> "badnumeral", text |-> s] : s \in {"IIII", "VV", "IIV", "X", "XI", "VIII", "m7", "7", "IVI"}} \cup
  {[kind |-> "function", k |-> k, d |-> d] : k \in MajorKeys, d \in 1..7} \cup
  {[kind |-> "subst", d |-> d, acc |-> a, prefix |-> Prefix(a), suffix |-> s] : d \in 1..7, a \in -1..1, s \in SubSuffixes} \cup
  \* the diminished cycle walks by minor thirds and piles up accidentals: start it from doubly and triply altered numerals too
  {[kind |-> "subst", d |-> d, acc |-> a, prefix |-> Prefix(a), suffix |-> s] : d \in 1..7, a \in {-3, -2, 2, 3}, s \in {"dim", "dim7"}}
VARIABLE done
Init == done = ndJsonSerialize(IOEnv.OUT, SetToSeq(Cases))
Next == FALSE /\ done' = done
=============================================================================
