SPECIFICATION Spec
POSTCONDITION Consumed
