----------------------------- MODULE Trace_C19 -----------------------------
EXTENDS Notation, TLC, Json, IOUtils
Trace == ndJsonDeserialize(IOEnv.TRACE)
VARIABLES l, bad, nbad
WBars(t) == t.bars
Clause(e) ==
  CASE e.op = "ly_composition" ->
         LET r == LyRead(e.tokens, 2) IN
         IF ~e.ok THEN "ly-export-raised"
         ELSE IF r.err # "" \/ r.d # 0 THEN "ly-grammar"
         ELSE IF ~r.header.present \/ r.header.title # e.prog.title \/ r.header.composer # e.prog.author \/ r.header.opus # e.prog.subtitle THEN "ly-header"
         ELSE IF Len(r.tracks) # Len(e.prog.tracks) THEN "ly-tracks"
         ELSE IF \E i \in 1..Len(r.tracks) : LyTrackClause(WBars(e.prog.tracks[i]), r.tracks[i], FALSE) # "ok"
              THEN LyTrackClause(WBars(e.prog.tracks[CHOOSE i \in 1..Len(r.tracks) : LyTrackClause(WBars(e.prog.tracks[i]), r.tracks[i], FALSE) # "ok"]),
                                 r.tracks[CHOOSE i \in 1..Len(r.tracks) : LyTrackClause(WBars(e.prog.tracks[i]), r.tracks[i], FALSE) # "ok"], FALSE)
         ELSE "ok"
    [] e.op = "ly_track" ->
         LET r == LyRead(e.tokens, 2) IN
         IF ~e.ok THEN "ly-export-raised"
         ELSE IF r.err # "" \/ r.d # 0 \/ Len(r.tracks) # 1 THEN "ly-grammar"
         ELSE LyTrackClause(WBars(e.prog.tracks[1]), r.tracks[1], FALSE)
    [] e.op = "ly_bar" ->
         LET r == LyRead(e.tokens, 1) IN
         IF ~e.ok THEN "ly-export-raised"
         ELSE IF r.err # "" \/ r.d # 0 THEN "ly-grammar"
         ELSE LyTrackClause(WBars(e.prog.tracks[1]), r.bars, TRUE)
    [] e.op = "ly_container" ->      \* one entry, no key / time: compare content and value only
         LET r == LyRead(e.tokens, 1) w == e.prog.tracks[1].bars[1].entries[1] IN
         IF ~e.ok THEN "ly-export-raised"
         ELSE IF r.err # "" \/ r.d # 0 \/ Len(r.bars) # 1 \/ Len(r.bars[1].entries) # 1 THEN "ly-grammar"
         ELSE IF r.bars[1].entries[1].c # WEntry(w).c THEN "ly-pitches-chords-rests"
         ELSE IF e.in.with_value /\ (~r.bars[1].entries[1].has \/ r.bars[1].entries[1].base # w.v.b \/ r.bars[1].entries[1].dots # w.v.d) THEN "ly-value-base-and-dots"
         ELSE "ok"
    [] e.op = "xml_composition" ->
         LET x == e.xml IN
         IF ~e.ok THEN (IF \E i \in 1..Len(e.prog.tracks) : \E j \in 1..Len(e.prog.tracks[i].bars) : e.prog.tracks[i].bars[j].entries = <<>> THEN "xml-empty-bar-raises"
                        ELSE IF \E i \in 1..Len(e.prog.tracks) : \E j \in 1..Len(e.prog.tracks[i].bars) : \E k \in 1..Len(e.prog.tracks[i].bars[j].entries) : e.prog.tracks[i].bars[j].entries[k].v.b < 2
                             THEN "xml-longa-or-breve-raises"
                        ELSE "xml-export-raised-or-not-well-formed")
         ELSE IF Len(x.parts) # Len(e.prog.tracks) \/ Len(x.partlist) # Len(e.prog.tracks) THEN "xml-one-part-per-track"
         ELSE IF [i \in 1..Len(x.parts) |-> x.parts[i].id] # [i \in 1..Len(x.partlist) |-> x.partlist[i].id]
                 \/ Cardinality({x.parts[i].id : i \in 1..Len(x.parts)}) # Len(x.parts) THEN "xml-part-ids"
         ELSE IF x.title # e.prog.title \/ x.creator # e.prog.author THEN "xml-title-author"
         ELSE IF \E i \in 1..Len(x.parts) : x.partlist[i].name # e.names[i] \/ x.partlist[i].instr # e.instrs[i] THEN "xml-track-and-instrument-names"
         ELSE IF \E i \in 1..Len(x.parts) : Len(x.parts[i].measures) # Len(e.prog.tracks[i].bars) THEN "xml-one-measure-per-bar"
         ELSE IF \E i \in 1..Len(x.parts) : \E j \in 1..Len(x.parts[i].measures) : XmlMeasureClause(e.prog.tracks[i].bars[j], x.parts[i].measures[j], j) # "ok"
              THEN LET i == CHOOSE i \in 1..Len(x.parts) : \E j \in 1..Len(x.parts[i].measures) : XmlMeasureClause(e.prog.tracks[i].bars[j], x.parts[i].measures[j], j) # "ok"
                       j == CHOOSE j \in 1..Len(x.parts[i].measures) : XmlMeasureClause(e.prog.tracks[i].bars[j], x.parts[i].measures[j], j) # "ok"
                   IN XmlMeasureClause(e.prog.tracks[i].bars[j], x.parts[i].measures[j], j)
         ELSE "ok"
    [] e.op = "build" -> "ok"
    [] OTHER -> "unknown-op"
W == INSTANCE Walk
Spec == W!Spec
Consumed == W!Consumed
=============================================================================
