SPECIFICATION Spec
POSTCONDITION Consumed
