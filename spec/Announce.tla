------------------------------ MODULE Announce ------------------------------
(***************************************************************************)
(* EXTENSION X01 (beyond the 20 listed properties): the COMPLETE message    *)
(* stream a Sequencer sends to its observers - the low-level events of C18  *)
(* plus the high-level announcements (note, container, bar, bars, track,    *)
(* tracks, composition).                                                     *)
(*                                                                           *)
(* The stream of one playback call is a word of this grammar                 *)
(*   Composition := COMP Tracks                                              *)
(*   Tracks      := TRACKS instr^n Bars_0 ... Bars_{m-1}                     *)
(*   Bars_i      := BARS(i) (PlayNC | sleep | StopNC)*                       *)
(*   Track       := TRACK Bar_0 ... Bar_{m-1}                                *)
(*   Bar_i       := BAR(i) (PlayNC sleep StopNC)^entries                     *)
(*   PlayNC      := NC+(k) (play NOTE+)^k      StopNC := NC-(k) (stop NOTE-)^k *)
(* It is recognised by the acceptor below: a state machine with one step per *)
(* message (Accept), whose state remembers what the open group still owes.   *)
(* The same machine is used three ways: TLC checks that the ideal emitter    *)
(* (Emit*, built from the program) is accepted for every small program       *)
(* (MC_X01); the recorded stream of the real sequencer is run through it     *)
(* (Trace_X01); for sequential playback the recorded stream must also equal  *)
(* the emitter's word exactly (sleep lengths are C18's business).            *)
(***************************************************************************)
EXTENDS Sequencer

Msg(k, p, ch, v) == [k |-> k, p |-> p, ch |-> ch, v |-> v]
LowKinds  == {"play", "stop", "cc", "instr", "sleep"}
AnnKinds  == {"COMP", "TRACKS", "TRACK", "BARS", "BAR"}

\* ---------------- the acceptor ----------------
\* st.owe   : number of (play NOTE+) or (stop NOTE-) pairs the open container group still owes
\* st.dir   : "play" / "stop" / "none"   direction of the open group
\* st.half  : the low-level note message that still waits for its note announcement (or NoMsg)
\* st.head  : header messages still expected, in order (kinds only)
\* st.nbar  : index the next BAR / BARS announcement must carry
\* st.seqph : sequential playback phase inside a bar: 0 expect NC+, 1 expect sleep, 2 expect NC-; -1 = not sequential
\* st.err   : first broken rule ("" while accepted)
NoMsg == Msg("none", 0, 0, 0)
AccInit(op, ntracks) ==
    [owe |-> 0, dir |-> "none", half |-> NoMsg, nbar |-> 0, err |-> "",
     head |-> CASE op = "play_Composition" -> <<"COMP", "TRACKS">> \o [i \in 1..ntracks |-> "instr"] \o <<"BARS">>
                [] op = "play_Tracks" -> <<"TRACKS">> \o [i \in 1..ntracks |-> "instr"] \o <<"BARS">>
                [] op = "play_Bars" -> <<"BARS">>
                [] op = "play_Track" -> <<"TRACK", "BAR">>
                [] op = "play_Bar" -> <<"BAR">>
                [] OTHER -> <<>>,
     seqph |-> IF op \in {"play_Track", "play_Bar"} THEN 0 ELSE -1,
     highlevel |-> op \in {"play_Composition", "play_Tracks", "play_Bars", "play_Track", "play_Bar"}]

Fail(st, why) == IF st.err = "" THEN [st EXCEPT !.err = why] ELSE st

Accept(st, m) ==
    IF st.err # "" THEN st
    \* (1) a low-level note message is immediately followed by its announcement, with the same numbers
    ELSE IF st.half # NoMsg THEN
        (IF st.half.k = "play" /\ m.k = "NOTE+" /\ m.p = st.half.p /\ m.ch = st.half.ch /\ m.v = st.half.v THEN [st EXCEPT !.half = NoMsg]
         ELSE IF st.half.k = "stop" /\ m.k = "NOTE-" /\ m.p = st.half.p /\ m.ch = st.half.ch THEN [st EXCEPT !.half = NoMsg]
         ELSE Fail(st, "note-message-followed-by-its-announcement"))
    ELSE IF m.k \in {"NOTE+", "NOTE-"} THEN Fail(st, "note-announcement-without-its-message")
    \* (2) the header of the call, in order
    ELSE IF st.head # <<>> /\ m.k \in AnnKinds \cup {"instr"} THEN
        (IF m.k # Head(st.head) THEN Fail(st, "announcement-header-order")
         ELSE IF m.k \in {"BAR", "BARS"} /\ m.p # st.nbar THEN Fail(st, "bars-announced-in-order")
         ELSE [st EXCEPT !.head = Tail(@), !.nbar = IF m.k \in {"BAR", "BARS"} THEN @ + 1 ELSE @])
    ELSE IF st.head # <<>> /\ st.highlevel THEN Fail(st, "announcement-header-order")
    \* (3) an open container group owes its notes before anything else happens
    ELSE IF st.owe > 0 THEN
        (IF m.k = st.dir THEN [st EXCEPT !.owe = @ - 1, !.half = m]
         ELSE Fail(st, "container-announcement-followed-by-its-notes"))
    ELSE IF m.k \in {"play", "stop"} THEN
        (IF st.highlevel THEN Fail(st, "note-outside-a-container-group") ELSE [st EXCEPT !.half = m])
    ELSE IF m.k = "NC+" THEN
        (IF st.seqph \in {1, 2} THEN Fail(st, "sequential-entry-pattern")
         ELSE [st EXCEPT !.owe = m.p, !.dir = "play", !.seqph = IF @ = 0 THEN 1 ELSE @])
    ELSE IF m.k = "NC-" THEN
        (IF st.seqph \in {0, 1} THEN Fail(st, "sequential-entry-pattern")
         ELSE [st EXCEPT !.owe = m.p, !.dir = "stop", !.seqph = IF @ = 2 THEN 0 ELSE @])
    ELSE IF m.k = "sleep" THEN
        (IF st.seqph \in {0, 2} THEN Fail(st, "sequential-entry-pattern")
         ELSE [st EXCEPT !.seqph = IF @ = 1 THEN 2 ELSE @])
    \* (4) later bar announcements: consecutive indices, only of the kind the call uses, only between entries
    ELSE IF m.k \in {"BAR", "BARS"} THEN
        (IF st.seqph \in {1, 2} THEN Fail(st, "sequential-entry-pattern")
         ELSE IF m.p # st.nbar THEN Fail(st, "bars-announced-in-order")
         ELSE [st EXCEPT !.nbar = @ + 1])
    ELSE IF m.k \in {"COMP", "TRACKS", "TRACK"} THEN Fail(st, "announced-more-than-once")
    ELSE st      \* cc / instr outside the header: no rule here

AcceptAll(op, ntracks, ms) ==
    LET r == FoldLeft(Accept, AccInit(op, ntracks), ms) IN
    IF r.err # "" THEN r.err
    ELSE IF r.half # NoMsg \/ r.owe > 0 THEN "stream-ends-inside-a-group"
    ELSE IF r.head # <<>> /\ ~(r.head = <<"BARS">> \/ r.head = <<"BAR">>) THEN "announcement-header-order"   \* a track without bars announces none
    ELSE IF r.seqph \in {1, 2} THEN "sequential-entry-pattern"
    ELSE "ok"

\* ---------------- projections used by the other rules ----------------
IsLow(m) == m.k \in LowKinds
Low(ms) == SelectSeq(ms, IsLow)
CountKind(ms, k) == Cardinality({i \in 1..Len(ms) : ms[i].k = k})
KindSeq(ms, K) == LET In(m) == m.k \in K IN SelectSeq(ms, In)

\* ---------------- the ideal emitter for sequential playback ----------------
\* an entry: [t, rest, notes (each with MidiPitch), bpm]; a rest is an absent container: NC+(0) sleep NC-(0)
EmitEntry(e, ch) ==
    LET k == IF e.rest THEN 0 ELSE Len(e.notes)
        chOf(n) == n.ch       \* a Note always carries its own channel and velocity, and they take precedence
        velOf(n) == n.vel
        ups == [i \in 1..(2 * k) |-> LET n == e.notes[(i + 1) \div 2] IN
                 IF i % 2 = 1 THEN Msg("play", MidiPitch(n), chOf(n), velOf(n)) ELSE Msg("NOTE+", MidiPitch(n), chOf(n), velOf(n))]
        downs == [i \in 1..(2 * k) |-> LET n == e.notes[(i + 1) \div 2] IN
                 IF i % 2 = 1 THEN Msg("stop", MidiPitch(n), chOf(n), 0) ELSE Msg("NOTE-", MidiPitch(n), chOf(n), 0)]
    IN <<Msg("NC+", k, ch, 100)>> \o ups \o <<Msg("sleep", 0, 0, 0)>> \o <<Msg("NC-", k, ch, 0)>> \o downs
\* tempo after an entry: a sounding entry carrying a tempo sets it
TempoAfter(bpm, e) == IF ~e.rest /\ e.bpm > 0 THEN e.bpm ELSE bpm
EmitBar(entries, idx, ch, bpm) ==
    LET F(acc, e) == [ms |-> acc.ms \o EmitEntry(e, ch), bpm |-> TempoAfter(acc.bpm, e)] IN
    FoldLeft(F, [ms |-> <<Msg("BAR", idx, ch, bpm)>>, bpm |-> bpm], entries)
EmitTrack(bars, ch, bpm) ==
    LET F(acc, i) == LET r == EmitBar(bars[i], i - 1, ch, acc.bpm) IN [ms |-> acc.ms \o r.ms, bpm |-> r.bpm] IN
    FoldLeft(F, [ms |-> <<Msg("TRACK", 0, ch, bpm)>>, bpm |-> bpm], [i \in 1..Len(bars) |-> i])
\* sleeps are compared by C18; here their length is erased
EraseSleep(ms) == [i \in 1..Len(ms) |-> IF ms[i].k = "sleep" THEN Msg("sleep", 0, 0, 0) ELSE ms[i]]
=============================================================================
