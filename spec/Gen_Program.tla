----------------------------- MODULE Gen_Program -----------------------------
(* The builder machine: generates PROGRAMS (compositions) for every exporter    *)
(* check (C16-C20) - by simulation (random programs) and systematically.        *)
EXTENDS MidiSem, Bar, TLC, Json, IOUtils
CONSTANTS D, MaxTracks, MaxBars, MaxEntries, Mode
RT == Mode = "rt"     \* round-trippable programs only (C17): whole tick counts, velocity >= 1, no tempo change
VARIABLES prog, steps
KeysUsed == AllKeys
Meters == {<<4,4>>, <<3,4>>, <<6,8>>, <<2,2>>, <<5,4>>, <<12,8>>, <<7,8>>, <<2,4>>}
Val(b, d, r) == [b |-> b, d |-> d, r |-> r]
AllVals == {Val(2, 0, <<1,1>>), Val(3, 0, <<1,1>>), Val(4, 0, <<1,1>>), Val(5, 0, <<1,1>>), Val(6, 0, <<1,1>>), Val(7, 0, <<1,1>>),
         Val(4, 1, <<1,1>>), Val(5, 1, <<1,1>>), Val(3, 2, <<1,1>>), Val(4, 0, <<3,2>>), Val(5, 0, <<3,2>>), Val(6, 0, <<5,4>>),
         Val(5, 0, <<7,4>>), Val(4, 0, <<5,4>>), Val(6, 1, <<1,1>>), Val(8, 0, <<1,1>>)}
Vals == IF RT THEN {v \in AllVals : WholeTicks(Ticks(v))} ELSE AllVals
AllNoteP == {[n |-> <<"C">>, o |-> 4, ch |-> 1, vel |-> 64], [n |-> <<"E","b">>, o |-> 4, ch |-> 1, vel |-> 64],
          [n |-> <<"F","#">>, o |-> 3, ch |-> 0, vel |-> 127], [n |-> <<"G">>, o |-> 5, ch |-> 9, vel |-> 1],
          [n |-> <<"B","#">>, o |-> 2, ch |-> 15, vel |-> 100], [n |-> <<"C","b">>, o |-> 6, ch |-> 4, vel |-> 0],
          [n |-> <<"A">>, o |-> 0, ch |-> 2, vel |-> 90], [n |-> <<"D","#","#">>, o |-> 7, ch |-> 1, vel |-> 33],
          [n |-> <<"G">>, o |-> 8, ch |-> 3, vel |-> 64], [n |-> <<"B","b","b">>, o |-> 1, ch |-> 7, vel |-> 80],
          [n |-> <<"C","b">>, o |-> 0, ch |-> 6, vel |-> 50]}        \* MIDI 11: the lowest octave of the format
NoteP == IF RT THEN {x \in AllNoteP : x.vel >= 1} ELSE AllNoteP
SortByPitch(S) == SetToSortSeq(S, LAMBDA a, b : MidiPitch(a) < MidiPitch(b))
NoteSeq == SortByPitch(NoteP)
Contents == {<<>>} \cup {<<NoteSeq[i]>> : i \in 1..Len(NoteSeq)} \cup
            UNION {{<<NoteSeq[i], NoteSeq[j]>> : j \in {i + 3} \cap 1..Len(NoteSeq)} : i \in 1..Len(NoteSeq)} \cup
            {<<NoteSeq[i], NoteSeq[i + 2], NoteSeq[i + 4]>> : i \in {1, 3, 5}}
DistinctPitches(s) == \A i, j \in 1..Len(s) : i # j => MidiPitch(s[i]) # MidiPitch(s[j])
TrackNames == {<<85, 110, 116, 105, 116, 108, 101, 100>>, <<76, 101, 97, 100>>, <<66, 97, 115, 115, 32, 49>>,
               <<80, 97, 100, 32, 32>>, <<32, 79, 98, 111, 101>>}   \* "Untitled", "Lead", "Bass 1", "Pad  " (ends in blanks), " Oboe" (begins with one)
Instrs == {[kind |-> "none", nr |-> 0], [kind |-> "midi", nr |-> 0], [kind |-> "midi", nr |-> 33], [kind |-> "midi", nr |-> 127], [kind |-> "piano", nr |-> 0]}
BarLen(b) == MeterLength(b.meter[1], b.meter[2])
BarTotal(b) == LET F(acc, e) == acc + e.t IN FoldLeft(F, 0, b.entries)
EmptyT == [name |-> <<>>, instr |-> [kind |-> "none", nr |-> 0], bars |-> <<>>]
EmptyB == [key |-> <<"C">>, meter |-> <<4,4>>, entries |-> <<>>]
LastT == IF prog.tracks = <<>> THEN EmptyT ELSE prog.tracks[Len(prog.tracks)]
LastB == IF LastT.bars = <<>> THEN EmptyB ELSE LastT.bars[Len(LastT.bars)]
Init == /\ \E bpm \in {120, 60, 200, 97}, r \in 0..2 : prog = [bpm |-> bpm, repeat |-> r, tracks |-> <<>>]
        /\ steps = 0
AddTrack == /\ Len(prog.tracks) < MaxTracks
            /\ (prog.tracks = <<>> \/ (LastT.bars # <<>> /\ LastB.entries # <<>>))
            /\ \E nm \in TrackNames, ins \in Instrs : prog' = [prog EXCEPT !.tracks = Append(@, [name |-> nm, instr |-> ins, bars |-> <<>>])]
AddBar == /\ prog.tracks # <<>> /\ Len(LastT.bars) < MaxBars
          /\ (LastT.bars = <<>> \/ LastB.entries # <<>>)
          /\ \E k \in KeysUsed, m \in Meters :
                prog' = [prog EXCEPT !.tracks[Len(prog.tracks)].bars = Append(@, [key |-> k, meter |-> m, entries |-> <<>>])]
AddEntry == /\ prog.tracks # <<>> /\ LastT.bars # <<>> /\ Len(LastB.entries) < MaxEntries
            /\ \E v \in Vals, c \in Contents, bpm \in (IF RT THEN {0} ELSE {0, 90}) :
                 /\ DistinctPitches(c) /\ BarTotal(LastB) + Ticks(v) <= BarLen(LastB)
                 /\ prog' = [prog EXCEPT !.tracks[Len(prog.tracks)].bars[Len(LastT.bars)].entries =
                                Append(@, [v |-> v, t |-> Ticks(v), rest |-> c = <<>>, notes |-> c, bpm |-> IF c = <<>> THEN 0 ELSE bpm])]
Next == /\ steps < D /\ steps' = steps + 1 /\ (AddEntry \/ AddBar \/ AddTrack)
Emit == steps = D /\ steps' = D + 1 /\ UNCHANGED prog /\ PrintT("@@" \o ToJson(prog))
Spec == Init /\ [][Next \/ Emit]_<<prog, steps>>
\* ---- systematic programs: every key x meter; every channel x velocity; leading / trailing / whole-bar rests
OneNote(ch, vel) == <<[n |-> <<"C">>, o |-> 4, ch |-> ch, vel |-> vel]>>
Q == [b |-> 4, d |-> 0, r |-> <<1,1>>]
Ent(v, c) == [v |-> v, t |-> Ticks(v), rest |-> c = <<>>, notes |-> c, bpm |-> 0]
OneBarProg(k, m, ents, ins, rep) == [bpm |-> 120, repeat |-> rep, tracks |-> <<[name |-> <<76, 101, 97, 100>>, instr |-> ins, bars |-> <<[key |-> k, meter |-> m, entries |-> ents]>>]>>]
NoInstr == [kind |-> "none", nr |-> 0]
Midi(nr) == [kind |-> "midi", nr |-> nr]
\* compositions in which tracks have equal content (a part doubled by another instrument; an ostinato in two tracks; X Y X)
TrackOf(nm, ins, bars) == [name |-> nm, instr |-> ins, bars |-> bars]
BarX == [key |-> <<"C">>, meter |-> <<4,4>>, entries |-> <<Ent(Q, OneNote(1, 64)), Ent(Q, <<>>), Ent(Q, OneNote(1, 64)), Ent(Q, OneNote(1, 64))>>]
BarY == [key |-> <<"C">>, meter |-> <<4,4>>, entries |-> <<Ent([b |-> 3, d |-> 0, r |-> <<1,1>>], OneNote(1, 64)), Ent([b |-> 3, d |-> 0, r |-> <<1,1>>], <<>>)>>]
BarR == [key |-> <<"C">>, meter |-> <<4,4>>, entries |-> <<Ent(Q, <<>>), Ent(Q, <<>>), Ent([b |-> 3, d |-> 0, r |-> <<1,1>>], <<>>)>>]
Doubled ==
  {[bpm |-> 120, repeat |-> 0, tracks |-> ts] : ts \in {
     <<TrackOf(<<76, 101, 97, 100>>, Midi(73), <<BarX, BarY>>), TrackOf(<<66, 97, 115, 115, 32, 49>>, Midi(68), <<BarX, BarY>>)>>,
     <<TrackOf(<<65>>, NoInstr, <<BarX>>), TrackOf(<<66>>, Midi(40), <<BarY>>), TrackOf(<<67>>, Midi(41), <<BarX>>)>>,
     <<TrackOf(<<65>>, NoInstr, <<BarY, BarY>>), TrackOf(<<66>>, NoInstr, <<BarY, BarY>>), TrackOf(<<67>>, NoInstr, <<BarY, BarY>>)>>,
     \* a first (or middle) track that holds no note at all: rests only
     <<TrackOf(<<65>>, NoInstr, <<BarR>>), TrackOf(<<66>>, Midi(40), <<BarX>>)>>,
     <<TrackOf(<<65>>, Midi(7), <<BarR, BarR>>), TrackOf(<<66>>, NoInstr, <<BarX, BarY>>), TrackOf(<<67>>, NoInstr, <<BarR, BarX>>)>>,
     <<TrackOf(<<65>>, NoInstr, <<BarX>>), TrackOf(<<66>>, NoInstr, <<BarR>>), TrackOf(<<67>>, NoInstr, <<BarY>>)>>}}
Systematic ==
  Doubled \cup
  {OneBarProg(k, <<4,4>>, <<Ent(Q, OneNote(1, 64)), Ent(Q, <<>>)>>, NoInstr, 0) : k \in AllKeys} \cup
  {OneBarProg(<<"C">>, m, <<Ent(UnitValue(m[2]), OneNote(1, 64))>>, NoInstr, 0) : m \in Meters} \cup
  {OneBarProg(<<"C">>, <<4,4>>, <<Ent(Q, OneNote(ch, vel))>>, NoInstr, 0) : ch \in 0..15, vel \in {0, 1, 64, 126, 127}} \cup
  {OneBarProg(<<"C">>, <<4,4>>, e, ins, rep) : rep \in 0..2, ins \in {NoInstr, Midi(5)},
      e \in {<<Ent(Q, <<>>), Ent(Q, OneNote(1, 64))>>, <<Ent(Q, OneNote(1, 64)), Ent(Q, <<>>)>>, <<Ent(Q, <<>>), Ent(Q, <<>>), Ent(Q, <<>>), Ent(Q, <<>>)>>,
             <<Ent(Q, <<>>), Ent(Q, OneNote(1, 64)), Ent(Q, <<>>), Ent(Q, OneNote(2, 10))>>, <<Ent(Q, OneNote(1, 64)), Ent(Q, OneNote(1, 64))>>}} \cup
  {OneBarProg(<<"C">>, <<4,4>>, <<Ent(v, OneNote(1, 64)), Ent(v, <<>>), Ent(v, OneNote(3, 20))>>, NoInstr, 1) : v \in {w \in Vocabulary : w.b >= 4}} \cup
  {OneBarProg(<<"C">>, <<4,4>>, <<Ent(Q, OneNote(1, 64))>>, Midi(nr), 0) : nr \in 0..127} \cup
  {[bpm |-> 120, repeat |-> 0, tracks |-> <<[name |-> [i \in 1..n |-> 65 + (i % 26)], instr |-> NoInstr,
       bars |-> <<[key |-> <<"G">>, meter |-> <<3,4>>, entries |-> <<Ent(Q, OneNote(1, 64))>>]>>]>>] : n \in {0, 1, 126, 127, 128, 129, 200, 255, 256, 300}}
\* ---- systematic programs for the notation exporters (C19)
Pn(n, o) == <<[n |-> n, o |-> o, ch |-> 1, vel |-> 64]>>
Titled(p, ti, au, su) == [bpm |-> p.bpm, repeat |-> p.repeat, tracks |-> p.tracks, title |-> ti, author |-> au, subtitle |-> su]
Texts == {<<"Untitled", "", "">>, <<"A & B", "J. S. <Bach>", "op. \"1\"">>, <<"Tom's <tune> & more", "me & you", "x > y">>,
          \* characters outside ASCII are written {code point} on the specification side (the harness transliterates both ways)
          <<"F{252}r Elise", "Anton{237}n Dvo{345}{225}k", "n{176} 1 {8212} {26376}">>,
          \* text that reads like markup itself: a comment, a character data section end, a processing instruction, an entity
          <<"Suite No. 1 -- Prelude", "<!-- anon -->", "a ]]> b">>, <<"<?xml x?> &amp; &#65;", "--", "-->">>}
\* tracks in which a bar's content comes back (a repeated phrase; the same notes under another key or meter)
BarOf(k, m, ents) == [key |-> k, meter |-> m, entries |-> ents]
PhraseA == <<Ent(Q, Pn(<<"C">>, 4)), Ent(Q, Pn(<<"E">>, 4)), Ent(Q, <<>>), Ent(Q, Pn(<<"G">>, 4))>>
PhraseB == <<Ent(Q, Pn(<<"D">>, 4)), Ent(Q, Pn(<<"F">>, 4))>>
Repeats == {[bpm |-> 120, repeat |-> 0, tracks |-> <<[name |-> <<76, 101, 97, 100>>, instr |-> NoInstr, bars |-> bs]>>] :
              bs \in {<<BarOf(<<"C">>, <<4,4>>, PhraseA), BarOf(<<"C">>, <<4,4>>, PhraseB), BarOf(<<"C">>, <<4,4>>, PhraseA), BarOf(<<"C">>, <<4,4>>, PhraseB)>>,
                      <<BarOf(<<"C">>, <<4,4>>, PhraseA), BarOf(<<"C">>, <<4,4>>, PhraseA), BarOf(<<"C">>, <<4,4>>, PhraseA)>>,
                      <<BarOf(<<"G">>, <<4,4>>, PhraseB), BarOf(<<"e">>, <<2,4>>, PhraseB), BarOf(<<"C">>, <<4,4>>, PhraseA)>>,
                      <<BarOf(<<"C">>, <<4,4>>, PhraseA), BarOf(<<"E">>, <<3,4>>, PhraseB), BarOf(<<"C">>, <<4,4>>, PhraseA), BarOf(<<"E">>, <<3,4>>, PhraseB)>>}}
Systematic19 ==
  Repeats \cup
  {OneBarProg(<<"C">>, <<4,4>>, <<Ent(Q, Pn(n, o))>>, NoInstr, 0) : n \in N35, o \in 0..8} \cup
  {OneBarProg(<<"C">>, <<8,1>>, <<Ent(v, Pn(<<"C">>, 4)), Ent(v, <<>>)>>, NoInstr, 0) : v \in Vocabulary} \cup
  {OneBarProg(<<"C">>, <<8,1>>, <<Ent(v, Pn(<<"D">>, 4) \o Pn(<<"F","#">>, 4) \o Pn(<<"A","b">>, 5)), Ent(w, Pn(<<"C">>, 3)), Ent(v, <<>>), Ent(Q, Pn(<<"E">>, 4))>>, NoInstr, 0) :
       v \in {x \in Vocabulary : x.r # <<1,1>> \/ x.d > 0}, w \in {Q, [b |-> 5, d |-> 0, r |-> <<3,2>>]}} \cup
  {OneBarProg(k, m, <<>>, NoInstr, 0) : k \in {<<"C">>, <<"e","b">>}, m \in {<<4,4>>, <<6,8>>}} \cup
  {OneBarProg(<<"C">>, <<4,4>>, <<Ent(Q, c)>>, NoInstr, 0) : c \in {Pn(<<"C">>, 4), Pn(<<"C">>, 4) \o Pn(<<"E">>, 4), Pn(<<"C">>, 4) \o Pn(<<"E">>, 4) \o Pn(<<"G">>, 4),
        Pn(<<"C">>, 4) \o Pn(<<"E">>, 4) \o Pn(<<"G">>, 4) \o Pn(<<"B","b">>, 4), Pn(<<"C">>, 4) \o Pn(<<"E">>, 4) \o Pn(<<"G">>, 4) \o Pn(<<"B","b">>, 4) \o Pn(<<"D">>, 5)}} \cup
  {Titled(OneBarProg(<<"G">>, <<3,4>>, <<Ent(Q, Pn(<<"C">>, 4))>>, Midi(40), 0), t[1], t[2], t[3]) : t \in Texts}
Sys19Init == prog = ndJsonSerialize(IOEnv.OUT, SetToSeq({Titled(p, "Untitled", "", "") : p \in {q \in Systematic19 : "title" \notin DOMAIN q}} \cup {q \in Systematic19 : "title" \in DOMAIN q})) /\ steps = 0
SysInit == prog = ndJsonSerialize(IOEnv.OUT, SetToSeq(Systematic)) /\ steps = 0
SysNext == FALSE /\ UNCHANGED <<prog, steps>>
=============================================================================
