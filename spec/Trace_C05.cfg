SPECIFICATION Spec
POSTCONDITION Consumed
