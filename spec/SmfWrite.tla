------------------------------ MODULE SmfWrite ------------------------------
(***************************************************************************)
(* EXTENSION X02: Standard MIDI Files that mingus did NOT write.            *)
(* An abstract file is [format, division, tracks], a track a sequence of    *)
(* abstract events [d (delta ticks), k, ch, a, b, data]:                    *)
(*   k = "on" "off" "at" (poly aftertouch) "cc" "pc" "cp" (channel          *)
(*   pressure) "pb" (pitch bend: a = lsb, b = msb) or "meta" (a = type,     *)
(*   data = bytes).  Encode writes the bytes, optionally with running       *)
(*   status; the end-of-track event is appended by the encoder.             *)
(* TLC checks (MC_X02) that the reader automaton of Smf.tla decodes         *)
(* Encode(f) back to f for every small file - the two halves of the         *)
(* specification agree.  The generated files are then given to the real     *)
(* reader (mingus.midi.midi_file_in.MidiFile.parse_midi_file), whose parse  *)
(* must be the abstract event list (Trace_X02).                              *)
(***************************************************************************)
EXTENDS MidiSem, Smf

AEv(d, k, ch, a, b, data) == [d |-> d, k |-> k, ch |-> ch, a |-> a, b |-> b, data |-> data]
Hi(k) == CASE k = "off" -> 8 [] k = "on" -> 9 [] k = "at" -> 10 [] k = "cc" -> 11 [] k = "pc" -> 12 [] k = "cp" -> 13 [] k = "pb" -> 14
OneData(k) == k \in {"pc", "cp"}
Status(e) == Hi(e.k) * 16 + e.ch
\* encoding of one event given the running status in force: <<bytes, new running status>>
EncEvent(e, running, useRunning) ==
    IF e.k = "meta" THEN << Vlq(e.d) \o <<255, e.a>> \o Vlq(Len(e.data)) \o e.data, 0 >>      \* a meta event cancels running status
    ELSE LET st == Status(e)
             body == IF OneData(e.k) THEN <<e.a>> ELSE <<e.a, e.b>> IN
         << Vlq(e.d) \o (IF useRunning /\ running = st THEN <<>> ELSE <<st>>) \o body, st >>
EncEvents(evs, useRunning) ==
    LET F(acc, e) == LET r == EncEvent(e, acc[2], useRunning) IN <<acc[1] \o r[1], r[2]>> IN
    FoldLeft(F, << <<>>, 0 >>, evs)[1]
B4(n) == <<n \div 16777216, (n \div 65536) % 256, (n \div 256) % 256, n % 256>>
B2(n) == <<n \div 256, n % 256>>
EncTrack(evs, useRunning) == LET body == EncEvents(evs, useRunning) \o <<0, 255, 47, 0>> IN MTrk \o B4(Len(body)) \o body
EncFile(f, useRunning) ==
    LET F(acc, t) == acc \o EncTrack(t, useRunning) IN
    MThd \o B4(6) \o B2(f.format) \o B2(Len(f.tracks)) \o B2(f.division) \o FoldLeft(F, <<>>, f.tracks)

\* ---- decoding with the reader automaton of Smf.tla (used by the round-trip theorem) ----
\* abstract view of a decoded event of Smf.EventAt (which reports absolute ticks and its own kinds)
RECURSIVE DecodeChunk(_, _, _, _, _, _)
DecodeChunk(B, pos, running, tick, chunkEnd, acc) ==
    LET e == EventAt(B, pos, running, tick, chunkEnd) IN
    IF ~e.ok THEN [ok |-> FALSE, evs |-> acc, next |-> pos]
    ELSE IF e.eot THEN [ok |-> TRUE, evs |-> acc, next |-> e.next]
    ELSE DecodeChunk(B, e.next, IF e.status # 0 THEN e.status ELSE running, e.ev.tick, chunkEnd, Append(acc, [e.ev EXCEPT !.tick = @ - tick]))
RECURSIVE DecodeTracks(_, _, _, _)
DecodeTracks(B, pos, n, acc) ==
    IF n = 0 THEN [ok |-> pos = Len(B) + 1, tracks |-> acc]
    ELSE IF ~IsTag(B, pos, MTrk) \/ U32(B, pos + 4) < 0 THEN [ok |-> FALSE, tracks |-> acc]
    ELSE LET r == DecodeChunk(B, pos + 8, 0, 0, pos + 7 + U32(B, pos + 4), <<>>) IN
         IF ~r.ok THEN [ok |-> FALSE, tracks |-> acc] ELSE DecodeTracks(B, r.next, n - 1, Append(acc, r.evs))
\* what Smf.EventAt reports for an abstract event (delta instead of absolute tick)
AsSmf(e) == CASE e.k = "on" -> Ev6(e.d, "on", e.ch, e.a, e.b, <<>>)
              [] e.k = "off" -> Ev6(e.d, "off", e.ch, e.a, e.b, <<>>)
              [] e.k = "cc" -> Ev6(e.d, "cc", e.ch, e.a, e.b, <<>>)
              [] e.k = "pc" -> Ev6(e.d, "pc", e.ch, e.a, 0, <<>>)
              [] e.k \in {"at", "pb"} -> Ev6(e.d, "chan", e.ch, Hi(e.k), e.a, <<>>)
              [] e.k = "cp" -> Ev6(e.d, "chan", e.ch, Hi(e.k), e.a, <<>>)
              [] e.k = "meta" /\ e.a = 3 -> Ev6(e.d, "name", 0, 0, 0, e.data)
              [] e.k = "meta" /\ e.a = 81 -> Ev6(e.d, "tempo", e.data[1] * 65536 + e.data[2] * 256 + e.data[3], 0, 0, <<>>)
              [] e.k = "meta" /\ e.a = 88 -> Ev6(e.d, "meter", e.data[1], e.data[2], 0, <<>>)
              [] e.k = "meta" /\ e.a = 89 -> Ev6(e.d, "key", Signed8(e.data[1]), e.data[2], 0, <<>>)
              [] OTHER -> Ev6(e.d, "meta", e.a, Len(e.data), 0, <<>>)
RoundTrip(f, useRunning) ==
    LET B == EncFile(f, useRunning) h == Header(B) r == DecodeTracks(B, 15, Len(f.tracks), <<>>) IN
    /\ h.ok /\ h.format = f.format /\ h.ntrks = Len(f.tracks) /\ h.division = f.division
    /\ r.ok
    /\ r.tracks = [i \in 1..Len(f.tracks) |-> [j \in 1..Len(f.tracks[i]) |-> AsSmf(f.tracks[i][j])]]
=============================================================================
