------------------------------- MODULE MC_X05 -------------------------------
EXTENDS LogIndex, TLC, FiniteSets
CONSTANTS MaxVal, MaxLen
VARIABLES T, mem, last, n
\* every strictly increasing table 0..N over 1..MaxVal
Tables == {t \in [0..N -> 1..MaxVal] : \A i \in 0..(N - 1) : t[i] < t[i + 1]}
Init == T \in Tables /\ mem = NoMem /\ last = <<0, 0, 0>> /\ n = 0
Ask == n < MaxLen /\ \E f \in 0..(MaxVal + 1) :
          LET r == Lookup(T, mem, f) IN mem' = r[2] /\ last' = <<f, r[1], Index(T, f)>> /\ n' = n + 1 /\ UNCHANGED T
Spec == Init /\ [][Ask]_<<T, mem, last, n>>
MemoryIsSound == MemoryIsSoundFor(T, mem)
AnswersAreIndex == last[2] = last[3]
=============================================================================
