SPECIFICATION Spec
POSTCONDITION Consumed
