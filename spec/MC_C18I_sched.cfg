SPECIFICATION Spec
CONSTANT Equal = FALSE
INVARIANT SchedRefinesIdeal
