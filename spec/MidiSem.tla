------------------------------- MODULE MidiSem -------------------------------
(* The MIDI event stream a composition DENOTES (properties C16, C17).          *)
(* A program is                                                                 *)
(*   [bpm, repeat, writer, tracks: <<[name, instr: [kind, nr], bars: <<[key,   *)
(*    meter, entries: <<[t (length in 1/215040 whole note), rest, notes:       *)
(*    <<[n, o, ch, vel]>>, bpm]>>]>>]>>]                                        *)
(* Decoded / expected events are records [tick, k, a, b, c]:                    *)
(*   k = "on"/"off": a = channel, b = pitch, c = velocity                       *)
(*   k = "tempo": a = microseconds per quarter; "meter": a = count, b = log2    *)
(*   unit; "key": a = signed accidentals, b = minor flag; "cc": a = channel,    *)
(*   b = controller, c = value; "pc": a = channel, b = program; "name"          *)
EXTENDS Keys, Value, SequencesExt

TPQ == 72                          \* ticks per quarter note
\* Python's round(): nearest, ties to even; here for num/den with den > 0
RoundHalfEven(num, den) == LET q == num \div den r == num % den IN
    IF 2 * r < den THEN q ELSE IF 2 * r > den THEN q + 1 ELSE (IF q % 2 = 0 THEN q ELSE q + 1)
\* MIDI ticks of an entry of t spec-ticks: round(288 / value) with value = L / t
EntryTicks(t) == RoundHalfEven(288 * t, L)
MidiPitch(x) == 12 * x.o + NatPC(x.n[1]) + Net(x.n) + 12
Ev(tick, k, a, b, c) == [tick |-> tick, k |-> k, a |-> a, b |-> b, c |-> c, txt |-> <<>>]

Log2u(u) == CHOOSE k \in 0..12 : Pow2(k) = u
KeySf(k) == Sig(k)
KeyMinor(k) == IF IsMinor(k) THEN 1 ELSE 0

\* ---- events of one bar starting at tick t0: <<events, end tick>>
EntryEvents(e, t0) ==
    IF e.rest \/ e.notes = <<>> THEN <<>>
    ELSE [i \in 1..Len(e.notes) |-> Ev(t0, "on", e.notes[i].ch, MidiPitch(e.notes[i]), e.notes[i].vel)] \o
         [i \in 1..Len(e.notes) |-> Ev(t0 + EntryTicks(e.t), "off", e.notes[i].ch, MidiPitch(e.notes[i]), e.notes[i].vel)]
BarEvents(b, t0) ==
    LET F(acc, e) == <<acc[1] \o EntryEvents(e, acc[2]), acc[2] + EntryTicks(e.t)>> IN
    FoldLeft(F, << <<Ev(t0, "meter", b.meter[1], Log2u(b.meter[2]), 0), Ev(t0, "key", KeySf(b.key), KeyMinor(b.key), 0)>>, t0 >>, b.entries)
TrackEventsFrom(tr, t0) ==
    LET F(acc, b) == LET r == BarEvents(b, acc[2]) IN <<acc[1] \o r[1], r[2]>> IN
    FoldLeft(F, <<<<>>, t0>>, tr.bars)
TrackLen(tr) == TrackEventsFrom(tr, 0)[2]
\* r + 1 copies laid end to end
RECURSIVE Copies(_, _, _)
Copies(tr, k, t0) == IF k = 0 THEN <<>> ELSE TrackEventsFrom(tr, t0)[1] \o Copies(tr, k - 1, t0 + TrackLen(tr))
IsNote(e) == e.k \in {"on", "off"}
IsBarMeta(e) == e.k \in {"meter", "key"}
\* expected note and per-bar meta events of a track written with `repeat`
ExpectedTrack(tr, repeat) == Copies(tr, repeat + 1, 0)
\* a lone note / container (write_Note, write_NoteContainer): 72 ticks per repetition, no bar
LoneEvents(notes, repeat) ==
    LET One(t0) == [i \in 1..Len(notes) |-> Ev(t0, "on", notes[i].ch, MidiPitch(notes[i]), notes[i].vel)] \o
                   [i \in 1..Len(notes) |-> Ev(t0 + 72, "off", notes[i].ch, MidiPitch(notes[i]), notes[i].vel)]
        R[k \in 0..repeat] == IF k = 0 THEN One(0) ELSE R[k - 1] \o One(72 * k) IN R[repeat]
TempoValue(bpm) == 60000000 \div bpm

\* ---- comparison as bags, pairing discipline
CountEv(s, e) == Cardinality({i \in 1..Len(s) : s[i] = e})
SameBag(s, u) == Len(s) = Len(u) /\ \A i \in 1..Len(s) : CountEv(s, s[i]) = CountEv(u, s[i])
Filter(s, P(_)) == SelectSeq(s, P)
\* no note hangs and no note overlaps itself: walking the stream in order, every on is of a silent
\* (channel, pitch), every off of a sounding one, and nothing sounds at the end
RECURSIVE Paired(_, _)
Paired(s, sounding) ==
    IF s = <<>> THEN sounding = {}
    ELSE LET e == s[1] key == <<e.a, e.b>> IN
         IF e.k = "on" THEN key \notin sounding /\ Paired(Tail(s), sounding \cup {key})
         ELSE IF e.k = "off" THEN key \in sounding /\ Paired(Tail(s), sounding \ {key})
         ELSE Paired(Tail(s), sounding)

\* ---- variable-length quantity
Vlq(n) == IF n < 128 THEN <<n>>
          ELSE IF n < 16384 THEN <<128 + (n \div 128), n % 128>>
          ELSE IF n < 2097152 THEN <<128 + (n \div 16384), 128 + ((n \div 128) % 128), n % 128>>
          ELSE <<128 + (n \div 2097152), 128 + ((n \div 16384) % 128), 128 + ((n \div 128) % 128), n % 128>>
VlqDecode(bs) == LET F(acc, b) == acc * 128 + (b % 128) IN FoldLeft(F, 0, bs)
VlqWellFormed(bs) == Len(bs) \in 1..4 /\ (\A i \in 1..(Len(bs) - 1) : bs[i] >= 128) /\ bs[Len(bs)] < 128

\* ---- round trip (C17): the flattened sequence of (length in MIDI ticks, set of <<pitch, channel, velocity>>)
\* with adjacent rests merged and trailing rests removed
FlatItem(t, notes) == [t |-> t, s |-> {<<MidiPitch(notes[i]), notes[i].ch, notes[i].vel>> : i \in 1..Len(notes)}]
MergeRests(items) ==
    LET F(acc, x) == IF acc # <<>> /\ x.s = {} /\ acc[Len(acc)].s = {}
                     THEN [acc EXCEPT ![Len(acc)].t = @ + x.t] ELSE Append(acc, x) IN
    FoldLeft(F, <<>>, items)
RECURSIVE DropTrailingRests(_)
DropTrailingRests(items) == IF items # <<>> /\ items[Len(items)].s = {} THEN DropTrailingRests(SubSeq(items, 1, Len(items) - 1)) ELSE items
Flat(items) == DropTrailingRests(MergeRests(items))
\* a program survives the round trip exactly when every entry has a whole tick count and every velocity is 1..127
WholeTicks(t) == (288 * t) % L = 0
=============================================================================
