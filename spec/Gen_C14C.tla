------------------------------ MODULE Gen_C14C ------------------------------
(* Composition scripts: add_track / + / selection changes / add_note.          *)
EXTENDS Track, TLC, Json
CONSTANTS D
VARIABLES comp, hist
Obj(n, o) == [t |-> "obj", n |-> n, o |-> o]
N1 == [rest |-> FALSE, items |-> <<Obj(<<"C">>, 4)>>]
CH == [rest |-> FALSE, items |-> <<Obj(<<"D">>, 4), Obj(<<"F","#">>, 4)>>]
RS == [rest |-> TRUE, items |-> <<>>]
Quarter == [b |-> 4, d |-> 0, r |-> <<1, 1>>]
Eighth == [b |-> 5, d |-> 0, r |-> <<1, 1>>]
Sels(n) == {<<>>} \cup {<<i>> : i \in 0..(n - 1)} \cup {<<i, j>> : i \in 0..(n - 1), j \in 0..(n - 1)} 
Acts(c) == {[op |-> "comp_add_track", instr |-> k] : k \in {"none", "piano"}} \cup {[op |-> "comp_plus_track", instr |-> "none"]} \cup
           {[op |-> "comp_select", sel |-> s] : s \in {x \in Sels(Len(c.tracks)) : Len(x) < 2 \/ x[1] < x[2]}} \cup
           {[op |-> o, arg |-> a] : o \in {"comp_add_note", "comp_plus_note"}, a \in {N1, CH}} \cup
           {[op |-> "comp_direct", track |-> i, arg |-> N1] : i \in 1..Len(c.tracks)}
Do(c, a) == CASE a.op \in {"comp_add_track", "comp_plus_track"} -> [tracks |-> Append(c.tracks, NewTrack(a.instr)), sel |-> <<Len(c.tracks)>>]
              [] a.op = "comp_select" -> [c EXCEPT !.sel = a.sel]
              [] a.op = "comp_direct" -> [c EXCEPT !.tracks[a.track] = AddNotesT(@, ContentOf(a.arg), Ticks(Eighth))[1]]
              [] OTHER -> [c EXCEPT !.tracks = [i \in 1..Len(c.tracks) |->
                              IF \E j \in 1..Len(c.sel) : c.sel[j] + 1 = i
                              THEN AddNotesT(c.tracks[i], ContentOf(a.arg), Ticks(Quarter))[1] ELSE c.tracks[i]]]
Init == comp = [tracks |-> <<>>, sel |-> <<>>] /\ hist = <<>>
Next == \E a \in Acts(comp) : /\ comp' = Do(comp, a) /\ Len(comp'.tracks) <= 3 /\ Len(hist) < D /\ hist' = Append(hist, a)
                              /\ (Len(hist') = D => PrintT("@@" \o ToJson([acts |-> hist'])))
Spec == Init /\ [][Next]_<<comp, hist>>
\* a note reaches exactly the selected tracks: unselected tracks never change
PropFrame == [][hist'[Len(hist')].op # "comp_direct" => \A i \in 1..Len(comp.tracks) : (~\E j \in 1..Len(comp.sel) : comp.sel[j] + 1 = i) => comp'.tracks[i] = comp.tracks[i]]_<<comp, hist>>
=============================================================================
