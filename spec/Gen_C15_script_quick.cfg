SPECIFICATION SSpec
CONSTANTS D = 6
 Mode = "none"
