SPECIFICATION GSpec
CONSTANTS MaxLen = 3
 Emit = FALSE
 Mode = "trans"
 D = 0
