SPECIFICATION Spec
CONSTANTS Mode = "mc"
 D = 2
INVARIANT InvBars
INVARIANT InvAllButLastFull
PROPERTY PropRefused
PROPERTY PropNewBar
