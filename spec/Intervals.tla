----------------------------- MODULE Intervals -----------------------------
(* Named interval constructors, semitone measure, consonance (C02);          *)
(* interval naming and interval shorthand (C03).                             *)
EXTENDS Pitch

\* constructor name |-> <<interval number, defining semitones>>
CtorNames == {"minor_unison", "major_unison", "augmented_unison", "minor_second", "major_second",
              "minor_third", "major_third", "minor_fourth", "major_fourth", "perfect_fourth",
              "minor_fifth", "major_fifth", "perfect_fifth", "minor_sixth", "major_sixth",
              "minor_seventh", "major_seventh"}
Ctor(c) == CASE c = "minor_unison" -> <<1, -1>> [] c = "major_unison" -> <<1, 0>> [] c = "augmented_unison" -> <<1, 1>>
             [] c = "minor_second" -> <<2, 1>> [] c = "major_second" -> <<2, 2>>
             [] c = "minor_third" -> <<3, 3>>  [] c = "major_third" -> <<3, 4>>
             [] c = "minor_fourth" -> <<4, 4>> [] c = "major_fourth" -> <<4, 5>> [] c = "perfect_fourth" -> <<4, 5>>
             [] c = "minor_fifth" -> <<5, 6>>  [] c = "major_fifth" -> <<5, 7>>  [] c = "perfect_fifth" -> <<5, 7>>
             [] c = "minor_sixth" -> <<6, 8>>  [] c = "major_sixth" -> <<6, 9>>
             [] c = "minor_seventh" -> <<7, 10>> [] c = "major_seventh" -> <<7, 11>>

\* ---- Laws C02 ----
LawCtorCore(c, n, r) ==      \* letter and semitone clause, valid name
    /\ Valid(r)
    /\ Letter(r) = ShiftLetter(Letter(n), Ctor(c)[1] - 1)
    /\ PC(r) = Mod12(PC(n) + Ctor(c)[2])
LawCtorSpelling(r) == Valid(r) /\ ~Mixed(r) /\ NAcc(r) <= 6

\* Reference: the unique unmixed spelling with net accidentals in -6..5 on the required letter
SpellOn(L, pc) == Spell(L, ((pc - NatPC(L) + 6 + 120) % 12) - 6)
RefCtor(c, n) == IF Ctor(c)[1] = 1
                 THEN (CASE c = "minor_unison" -> Diminish(n) [] c = "major_unison" -> n [] OTHER -> Augment(n))
                 ELSE SpellOn(ShiftLetter(Letter(n), Ctor(c)[1] - 1), Mod12(PC(n) + Ctor(c)[2]))

Measure(a, b) == Mod12(PC(b) - PC(a))
PerfectConsonant(a, b, fourths) == Measure(a, b) \in {0, 7} \/ (fourths /\ Measure(a, b) = 5)
ImperfectConsonant(a, b) == Measure(a, b) \in {3, 4, 8, 9}
Consonant(a, b, fourths) == PerfectConsonant(a, b, fourths) \/ ImperfectConsonant(a, b)

\* ---- C03: naming ----
MajorSize(d) == CASE d = 1 -> 0 [] d = 2 -> 2 [] d = 3 -> 4 [] d = 4 -> 5 [] d = 5 -> 7 [] d = 6 -> 9 [] d = 7 -> 11
\* interval number from the letters spanned (1..7)
Number(a, b) == ((LetterIdx(Letter(b)) - LetterIdx(Letter(a)) + 7) % 7) + 1
\* ascending distance counted along the spanned letters (may leave 0..11)
Dist(a, b) == Mod12(NatPC(Letter(b)) - NatPC(Letter(a))) + Net(b) - Net(a)
InNamingDomain(a, b) == Valid(a) /\ Valid(b) /\ Dist(a, b) \in 0..11
Offset(a, b) == Dist(a, b) - MajorSize(Number(a, b))
NumberWord(d) == CASE d = 1 -> "unison" [] d = 2 -> "second" [] d = 3 -> "third" [] d = 4 -> "fourth"
                   [] d = 5 -> "fifth" [] d = 6 -> "sixth" [] d = 7 -> "seventh"
Digit(d) == CASE d = 1 -> "1" [] d = 2 -> "2" [] d = 3 -> "3" [] d = 4 -> "4" [] d = 5 -> "5" [] d = 6 -> "6" [] d = 7 -> "7"
QualityWord(d, off) == IF off = 0 THEN (IF d \in {4, 5} THEN "perfect" ELSE "major")
                       ELSE IF off = -1 THEN "minor" ELSE IF off < -1 THEN "diminished" ELSE "augmented"
\* long form as a list of words, short form as a list of characters
LongName(a, b)  == <<QualityWord(Number(a, b), Offset(a, b)), NumberWord(Number(a, b))>>
ShortName(a, b) == (IF Offset(a, b) >= 0 THEN Rep("#", Offset(a, b)) ELSE Rep("b", 0 - Offset(a, b))) \o <<Digit(Number(a, b))>>

\* ---- C03: shorthand ----
Degrees == 1..7
ShAcc == {<<>>, <<"#">>, <<"b">>, <<"#","#">>, <<"b","b">>}
Shorthands == {acc \o <<Digit(d)>> : acc \in ShAcc, d \in Degrees}
ShDegree(sh) == CHOOSE d \in Degrees : Digit(d) = sh[Len(sh)]
ShNet(sh) == Cardinality({i \in 1..(Len(sh) - 1) : sh[i] = "#"}) - Cardinality({i \in 1..(Len(sh) - 1) : sh[i] = "b"})
ShSize(sh) == MajorSize(ShDegree(sh)) + ShNet(sh)
\* Law: right letter, exactly ShSize semitones above (up) / below (down)
LawFromSh(n, sh, up, r) ==
    /\ Valid(r)
    /\ Letter(r) = ShiftLetter(Letter(n), IF up THEN ShDegree(sh) - 1 ELSE 1 - ShDegree(sh))
    /\ PC(r) = Mod12(PC(n) + (IF up THEN ShSize(sh) ELSE 0 - ShSize(sh)))
\* Reference
RECURSIVE ApplyAcc(_, _, _)
ApplyAcc(r, acc, up) == IF acc = <<>> THEN r
                        ELSE ApplyAcc(IF (acc[1] = "#") = up THEN Augment(r) ELSE Diminish(r), Tail(acc), up)
RefFromSh(n, sh, up) ==
    LET d == ShDegree(sh)
        base == IF up THEN SpellOn(ShiftLetter(Letter(n), d - 1), Mod12(PC(n) + MajorSize(d)))
                      ELSE SpellOn(ShiftLetter(Letter(n), 1 - d), Mod12(PC(n) - MajorSize(d)))
        b0 == IF d = 1 THEN n ELSE base
    IN ApplyAcc(b0, SubSeq(sh, 1, Len(sh) - 1), up)
=============================================================================
