SPECIFICATION Spec
CONSTANTS D = 5
