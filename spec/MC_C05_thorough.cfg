SPECIFICATION Spec
CONSTANTS NMAX = 3
 KT = 3
INVARIANT RefSatisfiesLaws
INVARIANT Theorems
