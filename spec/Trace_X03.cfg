SPECIFICATION Spec
POSTCONDITION Consumed
