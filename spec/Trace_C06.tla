----------------------------- MODULE Trace_C06 -----------------------------
EXTENDS Chords, TLC, Json, IOUtils
Trace == ndJsonDeserialize(IOEnv.TRACE)
VARIABLES l, bad, nbad
Rejected(e) == ~e.ok /\ e.err \in {"FormatError", "NoteFormatError"}
Clause(e) ==
  CASE e.op = "from_shorthand" ->
         IF e.ok /\ LawChord(Meaning(e.in.sh), e.in.root, e.out) THEN "ok"
         ELSE IF e.in.spelled = e.in.sh THEN "chord-formula" ELSE "alias-spelling"
    [] e.op = "builder" ->      \* out.b = builder(root), out.s = from_shorthand(root + shorthand)
         IF e.ok /\ e.out.b = e.out.s /\ LawChord(Meaning(e.in.sh), e.in.root, e.out.b) THEN "ok" ELSE "builder-function"
    [] e.op = "named_builder" ->
         IF e.ok /\ LawChord(e.in.meaning, e.in.root, e.out) THEN "ok" ELSE "builder-function"
    [] e.op = "slash" ->
         IF Valid(e.in.bass)
         THEN (IF e.ok /\ Len(e.out) >= 1 /\ e.out[1] = e.in.bass /\ LawChord(Meaning(e.in.sh), e.in.root, Tail(e.out))
               THEN "ok" ELSE "slash-chord")
         ELSE (IF Rejected(e) THEN "ok" ELSE "reject-bad-root")
    [] e.op = "poly" -> IF ~(e.ok /\ e.out.xy = PolyJoin(e.out.y, e.out.x)) THEN "polychord"
                        \* 'X|Y|X': the part after the FIRST bar is itself the polychord 'Y|X' (X's notes, then Y's), on which X is stacked
                        ELSE IF e.out.xyx # PolyJoin(PolyJoin(e.out.x, e.out.y), e.out.x) THEN "polychord-nested" ELSE "ok"
    [] e.op = "nc" -> IF e.ok /\ e.out = <<>> THEN "ok" ELSE "no-chord"
    [] e.op = "list" ->
         IF e.ok /\ Len(e.out) = Len(e.in.items)
               /\ \A i \in 1..Len(e.out) : LawChord(Meaning(e.in.items[i].sh), e.in.items[i].root, e.out[i])
         THEN "ok" ELSE "list-elementwise"
    [] e.op = "list_nc" ->      \* [X, 'NC', Y, 'N.C.'] maps element-wise: the no-chord markers give empty chords in place
         IF e.ok /\ Len(e.out) = 4 /\ e.out[2] = <<>> /\ e.out[4] = <<>>
               /\ LawChord(Meaning(e.in.items[1].sh), e.in.items[1].root, e.out[1]) /\ LawChord(Meaning(e.in.items[2].sh), e.in.items[2].root, e.out[3])
         THEN "ok" ELSE "list-elementwise"
    [] e.op = "malformed" -> IF Rejected(e) THEN "ok" ELSE "reject-unknown-shorthand"
    [] e.op = "badroot" -> IF Rejected(e) THEN "ok" ELSE "reject-bad-root"
    [] e.op = "tables" ->       \* constructible shorthands = shorthands with a meaning
         IF e.ok /\ ToSet(e.out.constructible) = ToSet(e.out.meaning) THEN "ok" ELSE "tables-agree"
    [] e.op = "samemeaning" ->  \* out: one entry per shorthand that has a meaning
         IF e.ok /\ \A i, j \in 1..Len(e.out) : (e.out[i].meaning = e.out[j].meaning /\ e.out[i].built /\ e.out[j].built)
                                                  => e.out[i].chord = e.out[j].chord
         THEN "ok" ELSE "same-meaning-same-chord"
    [] OTHER -> "unknown-op"
W == INSTANCE Walk
Spec == W!Spec
Consumed == W!Consumed
=============================================================================
