SPECIFICATION Spec
INVARIANT Theorems
