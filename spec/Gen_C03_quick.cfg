INIT Init
NEXT Next
CONSTANTS KX = 2
