SPECIFICATION Spec
CONSTANTS NMAX = 2
 KT = 2
INVARIANT RefSatisfiesLaws
INVARIANT Theorems
