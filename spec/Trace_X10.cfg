SPECIFICATION Spec
POSTCONDITION Consumed
