----------------------------- MODULE Trace_C08 -----------------------------
EXTENDS Harmony, TLC, Json, IOUtils
Trace == ndJsonDeserialize(IOEnv.TRACE)
VARIABLES l, bad, nbad
Diatonic(k, d, sv) == IF sv THEN Seventh(k, d) ELSE Triad(k, d)
AllWellFormed(res) == \A i \in 1..Len(res) : WellFormedNumeral(res[i])
RootsAbove(orig, res, n) == \A i \in 1..Len(res) : NumeralRoot(res[i]) = Mod12(NumeralRoot(orig) + n)
Clause(e) ==
  CASE e.op = "function_name" ->     \* chords.tonic(key) ... chords.subtonic7(key), chords.I(key) ... chords.vii7(key)
         IF e.ok /\ e.out = Diatonic(e.in.k, e.in.d, e.in.seventh) THEN "ok"
         ELSE IF e.in.alias THEN "numeral-alias" ELSE "function-name"
    [] e.op = "table" ->             \* chords.triads(key) / chords.sevenths(key)
         IF e.ok /\ e.out = [d \in 1..7 |-> Diatonic(e.in.k, d, e.in.seventh)] THEN "ok" ELSE "stack-of-thirds"
    [] e.op = "to_chords" ->
         IF e.ok /\ Len(e.out) = 1 /\ LawNumeralChord(e.in.k, e.in.d, e.in.acc, e.in.suffix, e.out[1]) THEN "ok"
         ELSE IF e.in.acc # 0 THEN "numeral-prefix" ELSE IF e.in.suffix \notin {"", "7"} THEN "numeral-suffix" ELSE "numeral-string"
    [] e.op = "to_chords_list" ->   \* a progression of several numerals: element-wise, each parsed by the specification
         IF e.ok /\ Len(e.out) = Len(e.in.prog)
               /\ \A i \in 1..Len(e.out) : LET t == ParseNumeral(e.in.prog[i]) IN
                                              LawNumeralChord(e.in.k, DegreeOf(t.roman), t.acc, t.suffix, e.out[i])
         THEN "ok" ELSE "progression-elementwise"
    [] e.op = "to_chords_bad" -> IF e.ok /\ e.out = <<>> THEN "ok" ELSE "unrecognised-numeral"
    [] e.op = "determine" ->         \* harmonic function of a diatonic chord of a major key
         IF ~e.ok THEN "function-of-chord"
         ELSE IF MajorKeyNumeral[e.in.d] \o (IF e.in.seventh THEN "7" ELSE "") \notin ToSet(e.out.short) THEN "function-of-chord"
         ELSE IF FunctionNames[e.in.d] \o (IF e.in.seventh THEN " seventh" ELSE "") \notin ToSet(e.out.long) THEN "function-of-chord"
         ELSE IF e.out.back # <<e.in.chord>> THEN "numeral-chord-inverse" ELSE "ok"
    [] e.op = "parse_format" -> IF e.ok /\ e.out = e.in.s THEN "ok" ELSE "parse-format"
    [] e.op = "parse_string" ->
         IF e.ok /\ [acc |-> e.out.acc, roman |-> e.out.roman, suffix |-> e.out.suffix] = ParseNumeral(e.in.s) THEN "ok" ELSE "parse"
    [] e.op \in {"substitute_harmonic", "substitute_minor_for_major", "substitute_major_for_minor",
                 "substitute_diminished_for_diminished", "substitute_diminished_for_dominant", "substitute"} ->
         LET orig == e.in.prog[e.in.idx + 1] res == e.out.res IN
         IF ~e.ok THEN "substitute-raised"
         ELSE IF e.out.after # e.in.prog THEN "argument-modified"
         ELSE IF ~AllWellFormed(res) THEN "substitute-malformed"
         ELSE IF e.op = "substitute_harmonic" /\ ~(\A i \in 1..Len(res) : \A k \in MajorKeys : SharesTwo(k, orig, res[i]))
              THEN "harmonic-shares-two-notes"
         ELSE IF e.op = "substitute_minor_for_major" /\ ~RootsAbove(orig, res, 3) THEN "minor-for-major-root"
         ELSE IF e.op = "substitute_major_for_minor" /\ ~RootsAbove(orig, res, 9) THEN "major-for-minor-root"
         ELSE IF e.op = "substitute" /\ e.in.depth = 0 /\ ParseNumeral(orig).suffix \in {"m", "m7"}
                 /\ ~(\A i \in 1..Len(res) : ParseNumeral(res[i]).suffix \in {"M", "M7"} => NumeralRoot(res[i]) = Mod12(NumeralRoot(orig) + 3)) THEN "minor-for-major-root"
         ELSE IF e.op = "substitute" /\ e.in.depth = 0 /\ ParseNumeral(orig).suffix \in {"M", "M7"}
                 /\ ~(\A i \in 1..Len(res) : ParseNumeral(res[i]).suffix \in {"m", "m7"} => NumeralRoot(res[i]) = Mod12(NumeralRoot(orig) + 9)) THEN "major-for-minor-root"
         ELSE IF e.op = "substitute_diminished_for_diminished"
                 /\ ~(\A i \in 1..Len(res) : NumeralRoot(res[i]) = Mod12(NumeralRoot(orig) + 3 * i)) THEN "diminished-cycle"
         \* the general substitute() applies the rules again to its own results (depth): starting from a diminished chord, every
         \* diminished chord it returns is still a member of the original's minor-third cycle
         ELSE IF e.op = "substitute" /\ ParseNumeral(orig).suffix \in {"dim", "dim7"}
                 /\ ~(\A i \in 1..Len(res) : ParseNumeral(res[i]).suffix \in {"dim", "dim7"} => Mod12(NumeralRoot(res[i]) - NumeralRoot(orig)) % 3 = 0) THEN "diminished-cycle"
         \* substitute_diminished_for_dominant is not a documented rule (no docstring, no promise in the property):
         \* only well-formedness and argument immutability are demanded of it
         ELSE "ok"
    [] OTHER -> "unknown-op"
W == INSTANCE Walk
Spec == W!Spec
Consumed == W!Consumed
=============================================================================
