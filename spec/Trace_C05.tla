----------------------------- MODULE Trace_C05 -----------------------------
EXTENDS Scales, TLC, Json, IOUtils
Trace == ndJsonDeserialize(IOEnv.TRACE)
VARIABLES l, bad, nbad
Front(s) == SubSeq(s, 1, Len(s) - 1)
Clause(e) ==
  CASE e.op = "scale" ->      \* out = [asc, desc, len]
         IF ~e.ok THEN "scale-raised"
         ELSE IF ~LawAscending(e.in.c, e.in.t, e.in.n, e.out.asc) THEN "ascending-pattern"
         ELSE IF ~LawDescendingPitches(e.in.c, e.in.t, e.in.n, e.out.asc, e.out.desc) THEN "descending-pitches"
         ELSE IF ~LawDescendingNames(e.in.c, e.in.t, e.in.n, e.out.asc, e.out.desc) THEN "descending-names"
         ELSE IF e.out.len # Len(e.out.asc) THEN "length" ELSE "ok"
    [] e.op = "degrees" ->    \* out.list = degree(1..len-1, dir); out.ref = observed ascending()/descending()
         IF ~e.ok THEN (IF e.in.dir = "a" THEN "degree-ascending" ELSE "degree-descending")
         ELSE IF e.in.dir = "a" THEN (IF e.out.list = Front(e.out.ref) THEN "ok" ELSE "degree-ascending")
         ELSE (IF e.out.list = Front(Reverse(e.out.ref)) THEN "ok" ELSE "degree-descending")
    [] e.op = "eq" ->
         IF e.ok /\ e.out.eq = (e.out.asc_a = e.out.asc_b /\ e.out.desc_a = e.out.desc_b) /\ e.out.ne = ~e.out.eq
         THEN "ok" ELSE "equality"
    [] e.op = "determine" ->
         IF e.ok /\ {<<x.t, x.k>> : x \in ToSet(e.out)} = Recognised(ToSet(e.in.notes)) THEN "ok" ELSE "recognition"
    [] OTHER -> "unknown-op"
W == INSTANCE Walk
Spec == W!Spec
Consumed == W!Consumed
=============================================================================
