------------------------------ MODULE MC_C10 ------------------------------
EXTENDS NoteObj, TLC
VARIABLE call
Octs == 0..9
Init == call = [op |-> "init"]
Next == call.op = "init" /\
  \/ \E n \in N35, o \in Octs : call' = [op |-> "note", n |-> n, o |-> o]
  \/ \E n \in N35, o \in 1..8, sh \in Shorthands, up \in BOOLEAN : call' = [op |-> "tr", a |-> [n |-> n, o |-> o], sh |-> sh, up |-> up]
Spec == Init /\ [][Next]_call
RefSatisfiesLaws ==
  CASE call.op = "note" ->
         /\ HelmholtzRead(HelmholtzWrite(call.n, call.o)) = [n |-> call.n, o |-> call.o]
         /\ Cmp([n |-> call.n, o |-> call.o], [n |-> call.n, o |-> call.o]).eq
         \* enharmonic notes are equal
         /\ Cmp([n |-> <<"B","#">>, o |-> 3], [n |-> <<"C">>, o |-> 4]).eq
         /\ Cmp([n |-> <<"C","b">>, o |-> 4], [n |-> <<"B">>, o |-> 3]).eq
    [] call.op = "tr" ->
         SizeInDomain(call.sh) =>
           /\ LawTranspose(call.a, call.sh, call.up, RefTranspose(call.a, call.sh, call.up))
           /\ (call.up => RefTranspose(RefTranspose(call.a, call.sh, TRUE), call.sh, FALSE) = call.a)
    [] OTHER -> TRUE
=============================================================================
