-------------------------------- MODULE Track --------------------------------
(* Tracks and compositions as state machines (property C14).                   *)
(* A track is [instr, bars]; a bar is a Bar.tla state extended with its key.   *)
EXTENDS Bar, Chords

InstrKinds == {"none", "generic", "piano", "guitar", "midi"}
\* playable range in pitch numbers (C-0 = 0)
RangeOf(kind) == CASE kind = "generic" -> <<0, 96>> [] kind = "piano" -> <<5, 107>>
                   [] kind = "guitar" -> <<40, 88>> [] kind = "midi" -> <<0, 107>>
\* range gate on an argument (rests pass; the notes of the argument are given with explicit octaves)
ArgNotes(arg) == IF arg.rest THEN <<>> ELSE [i \in 1..Len(arg.items) |-> [n |-> arg.items[i].n, o |-> arg.items[i].o]]
InRange(kind, arg) ==
    \/ kind = "none" \/ arg.rest
    \/ /\ \A i \in 1..Len(ArgNotes(arg)) : NumOf(ArgNotes(arg)[i]) >= RangeOf(kind)[1] /\ NumOf(ArgNotes(arg)[i]) <= RangeOf(kind)[2]
       /\ (kind = "guitar" => Len(ArgNotes(arg)) <= 6)

NewTBar(key, meter) == [key |-> key, meter |-> meter, len |-> MeterLength(meter[1], meter[2]), entries |-> <<>>]
NewTrack(kind) == [instr |-> kind, bars |-> <<>>]
LastBar(tr) == tr.bars[Len(tr.bars)]
\* open a bar when there is none (C major, 4/4) or when the last one is full (inheriting key and meter)
WithOpenBar(tr) ==
    IF tr.bars = <<>> THEN [tr EXCEPT !.bars = <<NewTBar(<<"C">>, <<4, 4>>)>>]
    ELSE IF IsFull(LastBar(tr)) THEN [tr EXCEPT !.bars = Append(@, NewTBar(LastBar(tr).key, LastBar(tr).meter))]
    ELSE tr
\* add_notes with a value of t ticks: returns <<track', accepted>>
AddNotesT(tr, c, t) ==
    LET tr1 == WithOpenBar(tr) nb == PlaceT(LastBar(tr1), t, c) IN
    <<[tr1 EXCEPT !.bars[Len(tr1.bars)] = nb], nb # LastBar(tr1)>>
AddBar(tr, bar) == [tr EXCEPT !.bars = Append(@, bar)]

\* from_chords: one item of t ticks; when it does not fit, fill the remainder of the bar and put the rest in the next bar
RECURSIVE PlaceSplit(_, _, _)
PlaceSplit(tr, c, t) ==
    LET r == AddNotesT(tr, c, t) IN
    IF r[2] THEN r[1]
    ELSE LET tr1 == r[1] rem == LastBar(tr1).len - Total(LastBar(tr1).entries)
             a == AddNotesT(tr1, c, rem)[1] IN
         PlaceSplit(a, c, t - rem)
HalveTimes(t, depth) == t \div Pow2(depth)
ChordContent(root, sh) == Sounding(AddList(<<>>, [i \in 1..Len(RefChord(Meaning(sh), root)) |-> [t |-> "bare", n |-> RefChord(Meaning(sh), root)[i], o |-> 0]]))
FromChordsItem(tr, it, t) == PlaceSplit(tr, IF it.rest THEN Rest ELSE ChordContent(it.root, it.sh), HalveTimes(t, it.depth))
FromChords(tr, items, t) == LET F(acc, it) == FromChordsItem(acc, it, t) IN FoldLeft(F, tr, items)

\* ---- invariants / observations
TrackTotal(tr) == LET F(acc, b) == acc + Total(b.entries) IN FoldLeft(F, 0, tr.bars)
AllButLastFull(tr) == \A i \in 1..(Len(tr.bars) - 1) : IsFull(tr.bars[i])
Flatten(tr) == LET F(acc, b) == acc \o b.entries IN FoldLeft(F, <<>>, tr.bars)
=============================================================================
