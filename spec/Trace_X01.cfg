SPECIFICATION Spec
POSTCONDITION Consumed
