------------------------------ MODULE Registry ------------------------------
(* Extension X08: the registry of string tunings (mingus.extra.tunings) as a  *)
(* state machine.  State: the instruments in order of first registration;     *)
(* each keeps the display name it was FIRST registered under and its tunings  *)
(* by description in order of first registration.  Names and descriptions are *)
(* compared without regard to case; a later registration under the same       *)
(* instrument and description replaces the tuning and keeps its place.         *)
(* Texts are sequences of one-character strings.                               *)
EXTENDS Naturals, Sequences, FiniteSets, SequencesExt

UpC(c) == CASE c = "a" -> "A" [] c = "e" -> "E" [] c = "h" -> "H" [] c = "l" -> "L" [] c = "n" -> "N" [] c = "o" -> "O" [] c = "p" -> "P"
            [] c = "r" -> "R" [] c = "s" -> "S" [] c = "t" -> "T" [] c = "u" -> "U" [] c = "d" -> "D" [] OTHER -> c
Up(s) == [i \in 1..Len(s) |-> UpC(s[i])]
IsPre(p, s) == Len(p) <= Len(s) /\ SubSeq(s, 1, Len(p)) = p
\* order of characters as Python orders them (capitals before small letters)
Ord(c) == CASE c = "A" -> 1 [] c = "D" -> 2 [] c = "E" -> 3 [] c = "H" -> 4 [] c = "L" -> 5 [] c = "N" -> 6 [] c = "O" -> 7 [] c = "P" -> 8 [] c = "R" -> 9
            [] c = "S" -> 10 [] c = "T" -> 11 [] c = "U" -> 12 [] c = "a" -> 21 [] c = "d" -> 22 [] c = "e" -> 23 [] c = "h" -> 24 [] c = "l" -> 25
            [] c = "n" -> 26 [] c = "o" -> 27 [] c = "p" -> 28 [] c = "r" -> 29 [] c = "s" -> 30 [] c = "t" -> 31 [] c = "u" -> 32 [] OTHER -> 0
RECURSIVE Less(_, _)
Less(a, b) == IF a = <<>> THEN b # <<>> ELSE IF b = <<>> THEN FALSE
              ELSE IF Ord(a[1]) # Ord(b[1]) THEN Ord(a[1]) < Ord(b[1]) ELSE Less(Tail(a), Tail(b))

Empty == <<>>
IndexOf(reg, up) == IF \E i \in 1..Len(reg) : reg[i].up = up THEN CHOOSE i \in 1..Len(reg) : reg[i].up = up ELSE 0
DIndex(ds, up) == IF \E i \in 1..Len(ds) : ds[i].up = up THEN CHOOSE i \in 1..Len(ds) : ds[i].up = up ELSE 0
\* a tuning t = [id, strings, courses]
Add(reg, instr, descr, t) ==
    LET i == IndexOf(reg, Up(instr)) IN
    IF i = 0 THEN Append(reg, [up |-> Up(instr), display |-> instr, tunings |-> <<[up |-> Up(descr), t |-> t]>>])
    ELSE LET j == DIndex(reg[i].tunings, Up(descr)) IN
         IF j = 0 THEN [reg EXCEPT ![i].tunings = Append(@, [up |-> Up(descr), t |-> t])]
         ELSE [reg EXCEPT ![i].tunings[j].t = t]
\* the instruments a search text selects: the one of exactly that name if there is one, otherwise all it is a prefix of
Selected(reg, search) == LET u == Up(search) IN
    IF IndexOf(reg, u) # 0 THEN <<IndexOf(reg, u)>>
    ELSE SelectSeq([i \in 1..Len(reg) |-> i], LAMBDA i : IsPre(u, reg[i].up))
Fits(t, ns, nc) == (ns = 0 \/ t.strings = ns) /\ (nc = 0 \/ t.courses = nc)      \* 0: not asked
TuningsOf(reg, search, ns, nc) ==
    LET F(acc, i) == acc \o SelectSeq([k \in 1..Len(reg[i].tunings) |-> reg[i].tunings[k].t], LAMBDA t : Fits(t, ns, nc)) IN
    FoldLeft(F, <<>>, Selected(reg, search))
\* the first tuning of the selected instruments whose description begins with the given text
FirstTuning(reg, search, descr, ns, nc) ==
    LET F(acc, i) == acc \o SelectSeq(reg[i].tunings, LAMBDA d : IsPre(Up(descr), d.up) /\ Fits(d.t, ns, nc))
        all == FoldLeft(F, <<>>, Selected(reg, search)) IN
    IF all = <<>> THEN <<>> ELSE <<all[1].t>>
Displays(reg) == SetToSortSeq({reg[i].display : i \in 1..Len(reg)}, Less)
\* ---- invariants of the design
OneEntryPerName(reg) == \A i, j \in 1..Len(reg) : i # j => reg[i].up # reg[j].up
OneTuningPerDescription(reg) == \A i \in 1..Len(reg) : \A j, k \in 1..Len(reg[i].tunings) : j # k => reg[i].tunings[j].up # reg[i].tunings[k].up
=============================================================================
