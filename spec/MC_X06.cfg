SPECIFICATION Spec
CONSTANTS MaxLen = 3
 Emitting = FALSE
PROPERTY OtherHolderUntouched
PROPERTY TitlePageFrame
PROPERTY MembersFrame
INVARIANT NoForeignMemberInSuite
