SPECIFICATION Spec
CONSTANTS D = 40
 MaxTracks = 4
 MaxBars = 6
 MaxEntries = 6
 Mode = "rt"
