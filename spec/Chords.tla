------------------------------- MODULE Chords -------------------------------
(* Chord formulas, shorthand meaning, shorthand parser, polychord / slash     *)
(* structure, inversion (properties C06, C07; used by C08 and C12).           *)
(* A shorthand suffix is a plain string here ("m7", "6/9"); whole chord       *)
(* strings to be parsed are character sequences.                               *)
EXTENDS Scales

\* ---- chord formula by MEANING: sequence of <<degree, semitones above the root>> after the root
Formula(m) ==
  CASE m = "minor triad" -> << <<3,3>>, <<5,7>> >>
    [] m = "major triad" -> << <<3,4>>, <<5,7>> >>
    [] m = "diminished triad" -> << <<3,3>>, <<5,6>> >>
    [] m = "augmented triad" -> << <<3,4>>, <<5,8>> >>
    [] m = "augmented minor seventh" -> << <<3,4>>, <<5,8>>, <<7,10>> >>
    [] m = "augmented major seventh" -> << <<3,4>>, <<5,8>>, <<7,11>> >>
    [] m = "suspended seventh" -> << <<4,5>>, <<5,7>>, <<7,10>> >>
    [] m = "suspended fourth triad" -> << <<4,5>>, <<5,7>> >>
    [] m = "suspended second triad" -> << <<2,2>>, <<5,7>> >>
    [] m = "eleventh" -> << <<5,7>>, <<7,10>>, <<4,5>> >>
    [] m = "suspended fourth ninth" -> << <<4,5>>, <<5,7>>, <<2,1>> >>
    [] m = "minor seventh" -> << <<3,3>>, <<5,7>>, <<7,10>> >>
    [] m = "major seventh" -> << <<3,4>>, <<5,7>>, <<7,11>> >>
    [] m = "dominant seventh" -> << <<3,4>>, <<5,7>>, <<7,10>> >>
    [] m = "half diminished seventh" -> << <<3,3>>, <<5,6>>, <<7,10>> >>
    [] m = "diminished seventh" -> << <<3,3>>, <<5,6>>, <<7,9>> >>
    [] m = "minor/major seventh" -> << <<3,3>>, <<5,7>>, <<7,11>> >>
    [] m = "minor sixth" -> << <<3,3>>, <<5,7>>, <<6,9>> >>
    [] m = "major sixth" -> << <<3,4>>, <<5,7>>, <<6,9>> >>
    [] m = "dominant sixth" -> << <<3,4>>, <<5,7>>, <<6,9>>, <<7,10>> >>
    [] m = "sixth ninth" -> << <<3,4>>, <<5,7>>, <<6,9>>, <<2,2>> >>
    [] m = "dominant ninth" -> << <<3,4>>, <<5,7>>, <<7,10>>, <<2,2>> >>
    [] m = "dominant flat ninth" -> << <<3,4>>, <<5,7>>, <<7,10>>, <<2,1>> >>
    [] m = "dominant sharp ninth" -> << <<3,4>>, <<5,7>>, <<7,10>>, <<2,3>> >>
    [] m = "major ninth" -> << <<3,4>>, <<5,7>>, <<7,11>>, <<2,2>> >>
    [] m = "minor ninth" -> << <<3,3>>, <<5,7>>, <<7,10>>, <<2,2>> >>
    [] m = "lydian dominant seventh" -> << <<3,4>>, <<5,7>>, <<7,10>>, <<4,6>> >>
    [] m = "minor eleventh" -> << <<3,3>>, <<5,7>>, <<7,10>>, <<4,5>> >>
    [] m = "major thirteenth" -> << <<3,4>>, <<5,7>>, <<7,11>>, <<2,2>>, <<6,9>> >>
    [] m = "minor thirteenth" -> << <<3,3>>, <<5,7>>, <<7,10>>, <<2,2>>, <<6,9>> >>
    [] m = "dominant thirteenth" -> << <<3,4>>, <<5,7>>, <<7,10>>, <<2,2>>, <<6,9>> >>
    [] m = "dominant flat five" -> << <<3,4>>, <<5,6>>, <<7,10>> >>
    [] m = "hendrix chord" -> << <<3,4>>, <<5,7>>, <<7,10>>, <<3,3>> >>
    [] m = "perfect fifth" -> << <<5,7>> >>
    [] m = "major eleventh" -> << <<3,4>>, <<5,7>>, <<7,11>>, <<2,2>>, <<4,5>> >>

\* ---- documented meaning of each shorthand suffix
Meaning(s) ==
  CASE s \in {"m"} -> "minor triad" [] s \in {"M", ""} -> "major triad" [] s = "dim" -> "diminished triad"
    [] s \in {"aug", "+"} -> "augmented triad"
    [] s \in {"7#5", "M7+5", "m7+"} -> "augmented minor seventh"
    [] s \in {"M7+", "7+"} -> "augmented major seventh"
    [] s \in {"sus47", "7sus4"} -> "suspended seventh"
    [] s \in {"sus4", "sus"} -> "suspended fourth triad" [] s = "sus2" -> "suspended second triad"
    [] s \in {"11", "add11"} -> "eleventh"
    [] s \in {"sus4b9", "susb9"} -> "suspended fourth ninth"
    [] s = "m7" -> "minor seventh" [] s = "M7" -> "major seventh" [] s \in {"dom7", "7"} -> "dominant seventh"
    [] s = "m7b5" -> "half diminished seventh" [] s = "dim7" -> "diminished seventh"
    [] s \in {"m/M7", "mM7"} -> "minor/major seventh"
    [] s = "m6" -> "minor sixth" [] s \in {"M6", "6"} -> "major sixth"
    [] s \in {"6/7", "67"} -> "dominant sixth" [] s \in {"6/9", "69"} -> "sixth ninth"
    [] s \in {"9", "add9"} -> "dominant ninth" [] s = "7b9" -> "dominant flat ninth" [] s = "7#9" -> "dominant sharp ninth"
    [] s = "M9" -> "major ninth" [] s = "m9" -> "minor ninth" [] s = "7#11" -> "lydian dominant seventh"
    [] s = "m11" -> "minor eleventh" [] s = "M11" -> "major eleventh"
    [] s = "M13" -> "major thirteenth" [] s = "m13" -> "minor thirteenth"
    [] s \in {"13", "add13"} -> "dominant thirteenth" [] s = "7b5" -> "dominant flat five"
    [] s \in {"hendrix", "7b12"} -> "hendrix chord" [] s = "5" -> "perfect fifth"
DocumentedShorthands ==
  {"m", "M", "", "dim", "aug", "+", "7#5", "M7+5", "M7+", "m7+", "7+", "sus47", "7sus4", "sus4", "sus2", "sus",
   "11", "add11", "sus4b9", "susb9", "m7", "M7", "dom7", "7", "m7b5", "dim7", "m/M7", "mM7", "m6", "M6", "6",
   "6/7", "67", "6/9", "69", "9", "add9", "7b9", "7#9", "M9", "m9", "7#11", "m11", "M13", "m13", "13", "add13",
   "7b5", "hendrix", "7b12", "5", "M11"}

\* ---- Law: a chord (sequence of names) realises the formula of meaning m on root
LawChord(m, root, r) ==
    LET f == Formula(m) IN
    /\ Len(r) = Len(f) + 1
    /\ r[1] = root
    /\ \A i \in 1..Len(f) :
          /\ Valid(r[i + 1])
          /\ Letter(r[i + 1]) = ShiftLetter(Letter(root), f[i][1] - 1)
          /\ PC(r[i + 1]) = Mod12(PC(root) + f[i][2])
\* Reference chord
RefChord(m, root) == <<root>> \o [i \in 1..Len(Formula(m)) |->
                        SpellOn(ShiftLetter(Letter(root), Formula(m)[i][1] - 1), Mod12(PC(root) + Formula(m)[i][2]))]

\* polychord 'X|Y' = Y's notes then X's notes; a note equal to the one just before it is not repeated
RECURSIVE PolyJoin(_, _)
PolyJoin(y, x) == IF x = <<>> THEN y
                  ELSE IF y # <<>> /\ x[1] = y[Len(y)] THEN PolyJoin(y, Tail(x))
                  ELSE PolyJoin(Append(y, x[1]), Tail(x))

\* rotation = inversion k (0 = root position): first k notes moved to the end
Rotate(ch, k) == [i \in 1..Len(ch) |-> ch[((i - 1 + k) % Len(ch)) + 1]]
Ordinal(k) == CASE k = 0 -> <<>> [] k = 1 -> <<"first", "inversion">> [] k = 2 -> <<"second", "inversion">>
                [] k = 3 -> <<"third", "inversion">> [] k = 4 -> <<"fourth", "inversion">>
                [] k = 5 -> <<"fifth", "inversion">> [] k = 6 -> <<"sixth", "inversion">>
=============================================================================
