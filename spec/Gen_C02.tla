------------------------------ MODULE Gen_C02 ------------------------------
EXTENDS Intervals, TLC, Json, IOUtils, SequencesExt
CONSTANTS K, KP
Cases == {[kind |-> "name", n |-> n] : n \in Names(K)} \cup
         {[kind |-> "pair", a |-> a, b |-> b] : a \in Names(KP), b \in Names(KP)}
VARIABLE done
Init == done = ndJsonSerialize(IOEnv.OUT, SetToSeq(Cases))
Next == FALSE /\ done' = done
=============================================================================
