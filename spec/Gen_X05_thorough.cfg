SPECIFICATION Spec
CONSTANTS D = 3
