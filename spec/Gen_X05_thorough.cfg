SPECIFICATION Spec
CONSTANTS D = 3
 Small = FALSE
