SPECIFICATION GSpec
CONSTANTS Mode = "all"
 MaxEvents = 0
