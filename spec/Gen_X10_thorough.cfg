INIT Init
NEXT Next
CONSTANTS
 Roots <- T_Roots
