----------------------------- MODULE Trace_C15 -----------------------------
(* Trace validation for C15.  Spec state:                                      *)
(*   ans  - set of <<query, answer>> recorded so far in this behaviour          *)
(*   objs - last logged projection of every live object, and class defaults     *)
EXTENDS Naturals, Sequences, FiniteSets, TLC, Json, IOUtils
Trace == ndJsonDeserialize(IOEnv.TRACE)
VARIABLES l, st, bad, nbad
Known(s, q) == \E p \in s.ans : p[1] = q
AnswerOf(s, q) == (CHOOSE p \in s.ans : p[1] = q)[2]
Clause(s, line) ==
  CASE line.op = "begin" -> "ok"
    [] line.op = "call" ->        \* a query and its answer (canonical text); the first recording comes from a cold interpreter
         IF Known(s, line.q) /\ AnswerOf(s, line.q) # line.r
         THEN (IF line.phase = "history" THEN "answer-depends-on-history" ELSE "answer-changed-after-history")
         ELSE "ok"
    [] line.op = "env" -> "ok"     \* caller-side mutation of a returned list: no effect on answers (checked by later calls)
    [] line.op = "args" ->        \* deep snapshot of the arguments before and after the call
         IF line.before = line.after THEN "ok" ELSE "argument-modified"
    [] line.op = "new" -> "ok"
    [] line.op = "step" ->        \* operation on object line.recv: every other object and the class defaults keep their projection
         IF \E i \in 1..Len(line.objs) : i # line.recv /\ i <= Len(s.objs) /\ line.objs[i] # s.objs[i] THEN "sibling-instance-changed"
         ELSE IF line.defaults # s.defaults THEN "class-defaults-changed"
         ELSE "ok"
    [] line.op = "copy" ->        \* a new object built from object line.src: nothing else changes
         IF \E i \in 1..Len(s.objs) : line.objs[i] # s.objs[i] THEN "copy-changed-its-source"
         ELSE IF line.defaults # s.defaults THEN "class-defaults-changed" ELSE "ok"
    [] OTHER -> "unknown-op"
NextState(s, line) ==
  CASE line.op = "begin" -> [ans |-> {}, objs |-> <<>>, defaults |-> ""]
    [] line.op = "call" -> IF Known(s, line.q) THEN s ELSE [s EXCEPT !.ans = @ \cup {<<line.q, line.r>>}]
    [] line.op \in {"new", "step", "copy"} -> [s EXCEPT !.objs = line.objs, !.defaults = line.defaults]
    [] OTHER -> s
InitState == [ans |-> {}, objs |-> <<>>, defaults |-> ""]
W == INSTANCE WalkS
Spec == W!Spec
Consumed == W!Consumed
=============================================================================
