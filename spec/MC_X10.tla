------------------------------- MODULE MC_X10 -------------------------------
(* Extension X10: chord inversions (chords.invert, first_/second_/third_inversion) as     *)
(* rotations of the note list: the algebra TLC checks on every documented chord.          *)
EXTENDS Chords, TLC
VARIABLE call
Init == call = [op |-> "init"]
Next == call.op = "init" /\ \E s \in DocumentedShorthands, r \in N21 : call' = [op |-> "chord", ch |-> RefChord(Meaning(s), r)]
Spec == Init /\ [][Next]_call
IsCh == call.op = "chord"
\* k rotations then j rotations are k + j rotations; a full turn is the identity; the notes are the same notes
RotationsCompose == IsCh => \A k, j \in 0..3 : Rotate(Rotate(call.ch, k), j) = Rotate(call.ch, k + j)
FullTurn == IsCh => Rotate(call.ch, Len(call.ch)) = call.ch
SameNotes == IsCh => \A k \in 0..6 : /\ Len(Rotate(call.ch, k)) = Len(call.ch)
                                     /\ {Rotate(call.ch, k)[i] : i \in 1..Len(call.ch)} = {call.ch[i] : i \in 1..Len(call.ch)}
\* the k-th inversion starts on the k-th note above the root
StartsOn == IsCh => \A k \in 0..(Len(call.ch) - 1) : Rotate(call.ch, k)[1] = call.ch[k + 1]
=============================================================================
