INIT Init
NEXT Next
CONSTANTS
 Mids <- Q_Mids
