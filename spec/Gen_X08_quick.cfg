SPECIFICATION Spec
CONSTANTS D = 2
 Emitting = TRUE
