------------------------------ MODULE MC_C17 ------------------------------
EXTENDS MidiSem, TLC
VARIABLE call
Init == call = [op |-> "init"]
It(t, s) == [t |-> t, s |-> s]
A == {<<60, 1, 64>>}
Items == {It(72, {}), It(36, {}), It(72, A), It(36, {<<64, 1, 64>>, <<67, 2, 10>>})}
Next == call.op = "init" /\
  \/ \E b \in 4..1000 : call' = [op |-> "bpm", b |-> b]
  \/ \E a \in Items, b \in Items, c \in Items, d \in Items : call' = [op |-> "flat", s |-> <<a, b, c, d>>]
Spec == Init /\ [][Next]_call
Theorems ==
  CASE call.op = "bpm" -> 60000000 \div (60000000 \div call.b) = call.b /\ 60000000 \div call.b < 16777216
    [] call.op = "flat" ->
         LET f == Flat(call.s) IN
         /\ (f # <<>> => f[Len(f)].s # {})                                  \* no trailing rest
         /\ (\A i \in 1..(Len(f) - 1) : ~(f[i].s = {} /\ f[i + 1].s = {}))  \* no adjacent rests
         /\ Flat(f) = f                                                     \* idempotent
         /\ Flat(call.s \o <<It(10, {})>>) = f                              \* a trailing rest is ignored
    [] OTHER -> TRUE
=============================================================================
