SPECIFICATION Spec
POSTCONDITION Consumed
