SPECIFICATION Spec
CONSTANTS D = 14
 MaxTracks = 2
 MaxBars = 3
 MaxEntries = 6
 Mode = "rt"
