SPECIFICATION Spec
CONSTANTS MaxLen = 4
 Emitting = FALSE
INVARIANT ResetTrackIsSilent
