SPECIFICATION Spec
POSTCONDITION Consumed
