----------------------------- MODULE Trace_X10 -----------------------------
(* Extension X10: recorded inversions of chords against Rotate (Chords.tla) *)
EXTENDS Chords, TLC, Json, IOUtils
Trace == ndJsonDeserialize(IOEnv.TRACE)
VARIABLES l, bad, nbad
Clause(e) ==
  CASE e.op = "inversions" ->      \* in.ch: the chord handed over; out: what each function answered and the caller's list afterwards
         IF ~e.ok THEN "inversion-raised"
         ELSE IF e.out.after # e.in.ch THEN "callers-chord-changed"
         ELSE IF e.out.invert # Rotate(e.in.ch, 1) \/ e.out.first # Rotate(e.in.ch, 1) THEN "first-inversion-is-one-rotation"
         ELSE IF e.out.second # Rotate(e.in.ch, 2) THEN "second-inversion-is-two-rotations"
         ELSE IF e.out.third # Rotate(e.in.ch, 3) THEN "third-inversion-is-three-rotations"
         ELSE IF e.out.turn # e.in.ch THEN "full-turn-is-the-chord"
         ELSE "ok"
    [] e.op = "built" ->            \* the chord of a shorthand, inverted k times, is the rotation of the formula's chord
         IF e.ok /\ e.out = Rotate(RefChord(Meaning(e.in.sh), e.in.root), e.in.k) THEN "ok"
         ELSE IF e.ok /\ Len(e.out) = Len(Formula(Meaning(e.in.sh))) + 1 /\ LawChord(Meaning(e.in.sh), e.in.root, Rotate(e.out, Len(e.out) - (e.in.k % Len(e.out)))) THEN "ok"
         ELSE "inversion-of-the-built-chord"
    [] OTHER -> "unknown-op"
W == INSTANCE Walk
Spec == W!Spec
Consumed == W!Consumed
=============================================================================
