SPECIFICATION Spec
CONSTANTS D = 15
 Mode = "emit"
