SPECIFICATION Spec
CONSTANT K = 5
INVARIANT RefSatisfiesLaws
INVARIANT Theorems
