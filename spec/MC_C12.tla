------------------------------ MODULE MC_C12 ------------------------------
(* Model of the container: all histories over a small universe; invariants    *)
(* Sorted / duplicate-free, equivalence with a set-of-pitches model, and the   *)
(* voicing rule; also the generator of TRANSITIONS for transition coverage.    *)
EXTENDS NoteContainer, TLC, Json
CONSTANTS MaxLen, Emit
VARIABLES nc, pset, last
UNames == {<<"C">>, <<"E">>, <<"G">>, <<"B","#">>, <<"C","b">>, <<"C","#">>, <<"D","b">>}
UOcts == {3, 4, 5}
UNotes == {[n |-> n, o |-> o] : n \in UNames, o \in UOcts}
Actions ==
  {[op |-> "empty"]} \cup
  {[op |-> "add_bare", n |-> n] : n \in UNames} \cup
  {[op |-> o, n |-> x.n, o |-> x.o] : o \in {"add_note_obj"}, x \in UNotes} \cup
  {[op |-> "add_name_oct", n |-> n, o |-> o] : n \in {<<"C">>, <<"B","#">>, <<"D","b">>}, o \in {0, 3, 5}} \cup
  {[op |-> "add_list", items |-> <<[t |-> "bare", n |-> <<"G">>, o |-> 0], [t |-> "pair", n |-> <<"C">>, o |-> 5], [t |-> "bare", n |-> <<"C","b">>, o |-> 0]>>],
   [op |-> "plus_list", items |-> <<[t |-> "obj", n |-> <<"E">>, o |-> 3], [t |-> "bare", n |-> <<"C">>, o |-> 0], [t |-> "bare", n |-> <<"E">>, o |-> 0]>>],
   [op |-> "add_container", notes |-> <<[n |-> <<"C","#">>, o |-> 4], [n |-> <<"D","b">>, o |-> 4], [n |-> <<"G">>, o |-> 5]>>],
   [op |-> "plus_container", notes |-> <<[n |-> <<"C">>, o |-> 3], [n |-> <<"B","#">>, o |-> 3]>>]} \cup
  {[op |-> "remove_name", n |-> n] : n \in {<<"C">>, <<"B","#">>, <<"E">>}} \cup
  {[op |-> "remove_name_oct", n |-> n, o |-> o] : n \in {<<"C">>, <<"G">>}, o \in {0, 4, 5}} \cup
  {[op |-> "remove_obj", n |-> n, o |-> o] : n \in {<<"C">>, <<"D","b">>}, o \in {4}} \cup
  {[op |-> "remove_list", items |-> <<[t |-> "bare", n |-> <<"G">>, o |-> 0], [t |-> "obj", n |-> <<"B","#">>, o |-> 3]>>],
   [op |-> "minus_list", items |-> <<[t |-> "obj", n |-> <<"C","#">>, o |-> 4], [t |-> "bare", n |-> <<"E">>, o |-> 0]>>]}
Init == nc = <<>> /\ pset = {} /\ last = [op |-> "init"]
\* the set-of-pitches model: which pitches an action adds / removes, computed WITHOUT the sequence operators
NotePitch(it, cur) == IF it.t = "bare" THEN Num(it.n, BareOctave(cur, it.n)) ELSE Num(it.n, it.o)
Next == \E a \in Actions :
          /\ nc' = Apply(nc, a) /\ last' = a
          /\ Len(nc') <= MaxLen /\ (\A i \in 1..Len(nc') : nc'[i].o <= 6)
          /\ pset' = Pitches(nc')
          /\ (Emit => PrintT("@@" \o ToJson([state |-> nc, act |-> a, next |-> nc'])))
Spec == Init /\ [][Next]_<<nc, pset, last>>
InvSorted == Sorted(nc)
InvSetModel == Cardinality(pset) = Len(nc)
\* additions only add, removals only remove, and what they add/remove is what a set model predicts
PropSetModel == [][
    /\ (last'.op \in {"add_note_obj", "add_name_oct"} => pset' = pset \cup {Num(last'.n, last'.o)})
    /\ (last'.op = "add_bare" => pset' = pset \cup {Num(last'.n, BareOctave(nc, last'.n))})
    /\ (last'.op = "remove_obj" => pset' = pset \ {Num(last'.n, last'.o)})
    /\ (last'.op = "remove_name" => pset' = {p \in pset : \A i \in 1..Len(nc) : NumOf(nc[i]) = p => nc[i].n # last'.n})
    /\ (last'.op \in {"add_container", "plus_container"} => pset' = pset \cup {NumOf(last'.notes[i]) : i \in 1..Len(last'.notes)})
    /\ (last'.op = "empty" => pset' = {})
  ]_<<nc, pset, last>>
=============================================================================
