SPECIFICATION Spec
CONSTANTS MaxLen = 3
 Emit = FALSE
PROPERTY Frame
PROPERTY KindNeverChanges
INVARIANT GuitarSix
