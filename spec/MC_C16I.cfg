SPECIFICATION Spec
INVARIANT Refines
