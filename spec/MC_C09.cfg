SPECIFICATION Spec
INVARIANT Theorems
