SPECIFICATION GSpec
CONSTANTS Mode = "walk"
 MaxEvents = 8
