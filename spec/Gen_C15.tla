------------------------------ MODULE Gen_C15 ------------------------------
(* Call histories over the public theory API (property C15).  Queries are      *)
(* written as the expression the replay harness evaluates; mut(x, how) is the  *)
(* caller mutating a list it was handed.                                        *)
EXTENDS Naturals, Sequences, TLC, Json
CONSTANTS D, Mode
VARIABLE hist
\* lookups placed around table slots at both ends of the table and in the middle (the table holds the pitches 0..128:
\* 8.18 Hz ... 25087.7 Hz (127), 26579.5 Hz (128)); exact table values, values just off them, values outside the table
FftQueries == {
  "fft._find_log_index(0.0)", "fft._find_log_index(-5.0)", "fft._find_log_index(8.0)", "fft._find_log_index(8.175798915643707)", "fft._find_log_index(8.3)",
  "fft._find_log_index(430.0)", "fft._find_log_index(435.0)", "fft._find_log_index(440.0)", "fft._find_log_index(450.0)", "fft._find_log_index(466.1637615180899)",
  "fft._find_log_index(470.0)", "fft._find_log_index(23679.643021996148)", "fft._find_log_index(25000.0)", "fft._find_log_index(25087.70790283195)",
  "fft._find_log_index(26000.0)", "fft._find_log_index(26579.50064511649)", "fft._find_log_index(30000.0)"}
Queries == {
  "keys.get_notes('C')", "keys.get_notes('e')", "keys.get_notes('F#')", "keys.get_notes('G')", "keys.get_notes('a')",
  "keys.get_key_signature_accidentals('Eb')", "keys.get_key_signature_accidentals('D')", "keys.relative_minor('G')",
  "keys.get_key(3)", "keys.Key('bb').name", "keys.get_key_signature('c#')",
  "chords.triads('C')", "chords.triads('a')", "chords.triads('G')", "chords.sevenths('G')", "chords.sevenths('C')", "chords.sevenths('e')",
  "chords.tonic('C')", "chords.dominant7('C')", "chords.V7('F')", "chords.ii('G')", "chords.vii7('a')", "chords.subdominant('e')",
  "chords.triad('E', 'C')", "chords.seventh('B', 'G')",
  \* questions that are refused (a start note that is no note name, though it begins with a note letter): refused in every history
  "intervals.second('C-4', 'C')", "chords.triad('G7', 'C')", "intervals.third('Em', 'C')", "chords.seventh('Bflat', 'F')", "intervals.fifth('E', 'Q')",
  "chords.from_shorthand('Am7')", "chords.from_shorthand('C|G7')", "chords.from_shorthand(['C', 'Dm'])", "chords.determine(['C', 'E', 'G'])",
  "chords.determine(['E', 'G', 'C'], True)", "chords.major_triad('F#')", "chords.invert(['C', 'E', 'G'])",
  "scales.Major('G').ascending()", "scales.Major('C').descending()", "scales.NaturalMinor('E').ascending()",
  "scales.HarmonicMinor('A').ascending()", "scales.MelodicMinor('A').descending()", "scales.Chromatic('C').ascending()",
  "scales.determine(['A', 'B', 'C#'])", "scales.Dorian('D').ascending()", "scales.Major('G').degree(3)",
  "progressions.to_chords(['I', 'IV', 'V7'], 'C')", "progressions.to_chords('ii', 'G')", "progressions.to_chords(['VIIdim7', 'bII'], 'e')",
  "progressions.to_chords(['I'], 'C')", "progressions.determine(['C', 'E', 'G'], 'C')", "progressions.determine(['D', 'F#', 'A', 'C'], 'G', True)",
  "progressions.substitute(['I', 'IV', 'V'], 1, 1)", "progressions.substitute_harmonic(['I', 'IV'], 0)", "progressions.parse_string('bVIIm7')",
  \* twins: questions that differ only in the case of a letter or in one accidental (each has its own answer whatever was asked before)
  "progressions.to_chords('IM7', 'F')", "progressions.to_chords('Im7', 'F')", "progressions.to_chords(['VIIm'], 'F')", "progressions.to_chords(['VIIM'], 'F')",
  "progressions.to_chords('bII', 'F')", "progressions.to_chords('BII', 'F')", "progressions.to_chords('II', 'G')",
  "chords.from_shorthand('AM7')", "chords.from_shorthand('Cm')", "chords.from_shorthand('CM')", "keys.get_notes('A')", "keys.get_notes('E')", "keys.get_notes('g')",
  "tunings.get_tuning('Guitar', 'Standard').find_chord_fingering(NoteContainer().from_chord('Am'))[:4]",
  "tunings.get_tuning('Guitar', 'Standard').find_fingering(['E-2', 'B-2'])[:4]", "tunings.get_tuning('Guitar', 'Standard').find_frets('E-3')",
  "scales.Chromatic('F').ascending()", "scales.Chromatic('f').ascending()", "scales.Chromatic('A').descending()", "scales.Chromatic('a').descending()",
  "scales.Major('F').ascending()", "scales.NaturalMinor('F').ascending()",
  "intervals.from_shorthand('C', '7')", "notes.note_to_int('G')", "notes.note_to_int('G#')", "scales.determine(['A', 'B', 'C'])",
  "intervals.third('E', 'C')", "intervals.seventh('F#', 'G')", "intervals.from_shorthand('C', 'b7')", "intervals.invert(['C', 'E', 'G'])",
  "intervals.determine('C', 'G')", "intervals.major_sixth('Eb')", "intervals.measure('C', 'B')", "intervals.interval('G', 'A', 3)",
  "notes.int_to_note(3)", "notes.reduce_accidentals('C##')", "notes.note_to_int('Gb')",
  "value.determine(12)", "value.dots(4)", "meter.is_compound((6, 8))",
  "fft._find_log_index(440.0)", "fft._find_log_index(466.1637615180899)", "fft._find_log_index(452.0)", "fft._find_log_index(415.3046975799451)",
  "fft._find_log_index(261.6255653005986)", "fft._find_log_index(27.5)", "fft._find_log_index(4186.009044809578)", "fft._find_log_index(1000.0)",
  "fft._find_log_index(15.0)", "fft._find_log_index(8.175798915643707)", "fft._find_log_index(13000.0)", "fft._find_log_index(440.5)"} \cup FftQueries
Mutations == {
  "mut(keys.get_notes('C'), 'append')", "mut(keys.get_notes('e'), 'reverse')", "mut(keys.get_notes('G'), 'setitem')", "mut(keys.get_notes('F#'), 'clear')",
  "mut(keys.get_key_signature_accidentals('Eb'), 'append')",
  "mut(chords.triads('C'), 'clear')", "mut(chords.triads('C')[0], 'append')", "mut(chords.triads('a')[2], 'reverse')", "mut(chords.sevenths('G')[4], 'setitem')",
  "mut(chords.sevenths('C'), 'pop')", "mut(chords.tonic('C'), 'append')", "mut(chords.V7('F'), 'pop')", "mut(chords.ii('G'), 'setitem')",
  "mut(chords.dominant7('C'), 'clear')", "mut(chords.from_shorthand('Am7'), 'sort')", "mut(chords.triad('E', 'C'), 'append')",
  "mut(progressions.to_chords(['I', 'IV', 'V7'], 'C')[0], 'append')", "mut(progressions.to_chords('ii', 'G'), 'clear')",
  "mut(progressions.to_chords(['I'], 'C')[0], 'reverse')", "mut(progressions.to_chords(['VIIdim7', 'bII'], 'e')[1], 'setitem')",
  "mut(scales.Major('G').ascending(), 'reverse')", "mut(scales.NaturalMinor('E').ascending(), 'append')", "mut(scales.Major('C').descending(), 'clear')",
  "mut(tunings.get_tuning('Guitar', 'Standard').find_chord_fingering(NoteContainer().from_chord('Am'))[0], 'append')",
  "mut(tunings.get_tuning('Guitar', 'Standard').find_chord_fingering(NoteContainer().from_chord('Am'))[1], 'reverse')",
  "mut(tunings.get_tuning('Guitar', 'Standard').find_fingering(['E-2', 'B-2'])[0], 'clear')", "mut(tunings.get_tuning('Guitar', 'Standard').find_frets('E-3'), 'clear')",
  "mut(intervals.invert(['C', 'E', 'G']), 'append')", "mut(scales.determine(['A', 'B', 'C#']), 'clear')", "mut(keys.get_key(3), 'tuple')"}
Init == hist = <<>>
Next == \E c \in Queries \cup Mutations : Len(hist) < D /\ hist' = Append(hist, c)
            /\ (Len(hist') = D => PrintT("@@" \o ToJson([hist |-> hist'])))
Spec == Init /\ [][Next]_hist
\* sibling-instance scripts: sequences of <<receiver, operation index>>
SNext == \E r \in 1..2, k \in 0..11 : Len(hist) < D /\ hist' = Append(hist, <<r, k>>)
            /\ (Len(hist') = D => PrintT("@@" \o ToJson([script |-> hist'])))
SSpec == Init /\ [][SNext]_hist
\* every history of D lookups (position memory: the answer to the last one must not depend on the ones before)
FNext == \E c \in FftQueries : Len(hist) < D /\ hist' = Append(hist, c)
            /\ (Len(hist') = D => PrintT("@@" \o ToJson([hist |-> hist'])))
FSpec == Init /\ [][FNext]_hist
Alphabet == IF Mode = "emit" THEN PrintT("@@" \o ToJson([queries |-> Queries, mutations |-> Mutations, fft |-> FftQueries])) ELSE TRUE
ASSUME Alphabet
=============================================================================
