------------------------------ MODULE MC_C05 ------------------------------
EXTENDS Scales, TLC
CONSTANTS NMAX, KT
VARIABLE call
Init == call = [op |-> "init"]
TonicsOf(c) == CASE c \in MajorFamily -> MajorTonics [] c \in MinorFamily -> MinorTonics [] OTHER -> {}
Next == call.op = "init" /\
  \/ \E c \in MajorFamily \cup MinorFamily, n \in 1..NMAX : \E t \in TonicsOf(c) : call' = [op |-> "scale", c |-> c, t |-> t, n |-> n]
  \/ \E c \in Modes, n \in 1..NMAX : \E t \in {x \in Names(KT) : ~Mixed(x)} : call' = [op |-> "scale", c |-> c, t |-> t, n |-> n]
  \/ \E f \in Family : \E S \in SUBSET FamAsc[f] : Cardinality(S) \in {1, 3, 7} /\ call' = [op |-> "rec", f |-> f, S |-> S]
Spec == Init /\ [][Next]_call
RefSatisfiesLaws ==
  CASE call.op = "scale" ->
         /\ LawAscending(call.c, call.t, call.n, RefAsc(call.c, call.t, call.n))
         /\ LawDescendingNames(call.c, call.t, call.n, RefAsc(call.c, call.t, call.n), RefDesc(call.c, call.t, call.n))
         /\ LawDescendingPitches(call.c, call.t, call.n, RefAsc(call.c, call.t, call.n), RefDesc(call.c, call.t, call.n))
    [] call.op = "rec" ->     \* non-vacuity: every subset of a family scale is recognised as that scale
         <<call.f[2], KindName(call.f[1])>> \in Recognised(call.S)
    [] OTHER -> TRUE
Theorems == /\ Cardinality(Family) = 105
            /\ Recognised({<<"C">>, <<"C","#">>, <<"D">>, <<"D","#">>}) = {}
            /\ \A c \in Classes : SumTo(Pattern(c), Len(Pattern(c))) = 12
            \* major and natural minor reference scales are the key note lists of C04
            /\ \A k \in MajorKeys : RefOctave("Major", k) = KeyNotes(k)
            /\ \A k \in MinorKeys : RefOctave("NaturalMinor", Tonic(k)) = KeyNotes(k)
=============================================================================
