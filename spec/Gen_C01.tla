------------------------------ MODULE Gen_C01 ------------------------------
(* Generator: the input space of property C01, enumerated by TLC and written *)
(* as NDJSON for the replay harness.                                         *)
EXTENDS Pitch, TLC, Json, IOUtils, SequencesExt
CONSTANTS K,      \* accidental strings up to this length, every order
          KP,     \* names used for ordered pairs (enharmonic test)
          M       \* malformed strings up to this length
Alphabet == {"A","B","C","D","E","F","G","H","c","#","b","x","1"," ","-","\n","\t","%"}
Strings(m) == UNION {[1..j -> Alphabet] : j \in 1..m}
\* products are written compactly (the harness expands them mechanically): all ordered pairs over a name set,
\* all non-empty strings over the alphabet up to a length
Cases ==
  {[kind |-> "name", n |-> n] : n \in Names(K)} \cup
  {[kind |-> "pairs_over", names |-> SetToSeq(Names(KP))]} \cup
  {[kind |-> "strings_over", alphabet |-> SetToSeq(Alphabet), maxlen |-> M]} \cup
  {[kind |-> "int", i |-> i, style |-> st] : i \in -14..26, st \in {<<"#">>, <<"b">>, <<"x">>, <<"#","#">>, <<"B">>, <<>>, <<"#","b">>, <<"b","#">>, <<" ">>, <<"b","b">>}}
VARIABLE done
Init == done = ndJsonSerialize(IOEnv.OUT, SetToSeq(Cases))
Next == FALSE /\ done' = done
=============================================================================
