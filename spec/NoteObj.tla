------------------------------- MODULE NoteObj -------------------------------
(* The Note object: pitch number, comparisons, Helmholtz notation (C10);      *)
(* transposition with the octave rule (C11).                                   *)
EXTENDS Keys

\* pitch number of (name, octave)
Num(n, o) == 12 * o + NatPC(n[1]) + Net(n)
NumOf(x) == Num(x.n, x.o)          \* x = [n |-> name, o |-> octave]

\* six comparison operators as integer comparisons
Cmp(a, b) == [lt |-> NumOf(a) < NumOf(b), le |-> NumOf(a) <= NumOf(b), eq |-> NumOf(a) = NumOf(b),
              ne |-> NumOf(a) # NumOf(b), gt |-> NumOf(a) > NumOf(b), ge |-> NumOf(a) >= NumOf(b)]

\* ---- Helmholtz pitch notation (Reference writer and reader over characters)
LowerL(L) == Lower(L)
HelmholtzWrite(n, o) ==
    IF o < 3 THEN n \o Rep(",", 2 - o)
    ELSE <<LowerL(n[1])>> \o Tail(n) \o Rep("'", o - 3)
HelmholtzRead(s) ==
    LET upper == s[1] \in LetterSet
        accEnd == CHOOSE k \in 1..Len(s) : (\A i \in 2..k : s[i] \in AccSet) /\ (k = Len(s) \/ s[k + 1] \notin AccSet)
        marks == Len(s) - accEnd
    IN [n |-> <<Upper(s[1])>> \o SubSeq(s, 2, accEnd),
        o |-> IF upper THEN 2 - marks ELSE 3 + marks]

\* ---- transposition (C11)
\* Law: pitch number moves by exactly the size, letter by the interval number, for sizes 0..11
SizeInDomain(sh) == ShSize(sh) \in 0..11
LawTranspose(a, sh, up, r) ==
    /\ Valid(r.n)
    /\ NumOf(r) = NumOf(a) + (IF up THEN ShSize(sh) ELSE 0 - ShSize(sh))
    /\ Letter(r.n) = ShiftLetter(Letter(a.n), IF up THEN ShDegree(sh) - 1 ELSE 1 - ShDegree(sh))
\* Reference
RefTranspose(a, sh, up) ==
    LET nn == RefFromSh(a.n, sh, up)
        target == NumOf(a) + (IF up THEN ShSize(sh) ELSE 0 - ShSize(sh))
    IN [n |-> nn, o |-> (target - NatPC(nn[1]) - Net(nn)) \div 12]
LawChangeOctave(o, diff, r) == r = (IF o + diff < 0 THEN 0 ELSE o + diff)
=============================================================================
