------------------------------- MODULE MC_X03 -------------------------------
(* The instrument machine: every history of creating instruments and setting  *)
(* ranges; the frame condition as an action property; generator of scripts.    *)
EXTENDS Instruments, TLC, Json
CONSTANTS MaxLen, Emit
VARIABLES st, hist
Ranges == {<<40, 88>>, <<0, 0>>, <<60, 59>>, <<12, 115>>}
Acts == {[op |-> "new", kind |-> k, i |-> 0, lo |-> 0, hi |-> 0, form |-> "none"] : k \in Kinds} \cup
        {[op |-> "set_range", kind |-> "none", i |-> i, lo |-> r[1], hi |-> r[2], form |-> f] : i \in 1..3, r \in Ranges, f \in {"names", "notes"}}
Enabled(a) == IF a.op = "new" THEN TRUE ELSE a.i <= Len(st)
Init == st = <<>> /\ hist = <<>>
Step == Len(hist) < MaxLen /\ \E a \in Acts : Enabled(a) /\ st' = Apply(st, a) /\ hist' = Append(hist, a)
             /\ (Emit /\ Len(hist') = MaxLen => PrintT("@@" \o ToJson([acts |-> hist'])))
Spec == Init /\ [][Step]_<<st, hist>>
\* setting a range touches exactly one instrument; creating one touches none
Frame == [][\A j \in 1..Len(st) : (Len(hist') > Len(hist) /\ ~(hist'[Len(hist')].op = "set_range" /\ hist'[Len(hist')].i = j)) => st'[j] = st[j]]_<<st, hist>>
KindNeverChanges == [][\A j \in 1..Len(st) : st'[j].kind = st[j].kind]_<<st, hist>>
\* a guitar never plays more than six notes, whatever its range
GuitarSix == \A j \in 1..Len(st) : st[j].kind = "guitar" => ~CanPlay(st[j], [i \in 1..7 |-> st[j].lo])
=============================================================================
