SPECIFICATION Spec
CONSTANTS D = 16
