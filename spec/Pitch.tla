------------------------------- MODULE Pitch -------------------------------
(***************************************************************************)
(* Note names and pitch classes (property C01 and the foundation of every   *)
(* other module).  A note name is a SEQUENCE OF ONE-CHARACTER STRINGS       *)
(* (<<"C","#","b">>), because TLC cannot index into a string.               *)
(* Written from the property statement and elementary music theory, not     *)
(* from the Python source.                                                   *)
(***************************************************************************)
EXTENDS Naturals, Integers, Sequences, FiniteSets

LetterSeq == <<"C", "D", "E", "F", "G", "A", "B">>
LetterSet == {"C", "D", "E", "F", "G", "A", "B"}
AccSet    == {"#", "b"}

\* natural pitch class of a letter
NatPC(L) == CASE L = "C" -> 0 [] L = "D" -> 2 [] L = "E" -> 4 [] L = "F" -> 5
              [] L = "G" -> 7 [] L = "A" -> 9 [] L = "B" -> 11

\* 0-based position of a letter in C D E F G A B
LetterIdx(L) == CASE L = "C" -> 0 [] L = "D" -> 1 [] L = "E" -> 2 [] L = "F" -> 3
                  [] L = "G" -> 4 [] L = "A" -> 5 [] L = "B" -> 6
LetterAt(i) == LetterSeq[(i % 7) + 1]
\* letter k diatonic steps above L (k may be negative)
ShiftLetter(L, k) == LetterAt(LetterIdx(L) + k + 700)

Mod12(x) == (x + 1200000) % 12

IsSeq(n) == DOMAIN n = 1..Len(n)

\* the validity predicate of the property: a letter A-G followed by any string of '#' and 'b'
Valid(n) == /\ Len(n) >= 1
            /\ n[1] \in LetterSet
            /\ \A i \in 2..Len(n) : n[i] \in AccSet

Count(n, c) == Cardinality({i \in 2..Len(n) : n[i] = c})
Sharps(n)   == Count(n, "#")
Flats(n)    == Count(n, "b")
Net(n)      == Sharps(n) - Flats(n)
Letter(n)   == n[1]
NAcc(n)     == Len(n) - 1
Mixed(n)    == Sharps(n) > 0 /\ Flats(n) > 0

\* pitch class = natural pitch class of the letter + sharps - flats, mod 12
PC(n) == Mod12(NatPC(n[1]) + Net(n))

Rep(c, k) == [i \in 1..k |-> c]
\* the letter with exactly k sharps (k > 0) or -k flats (k < 0)
Spell(L, k) == <<L>> \o (IF k >= 0 THEN Rep("#", k) ELSE Rep("b", 0 - k))

\* ---- Reference (constructive) definitions ----
Augment(n)  == IF n[Len(n)] = "b" THEN SubSeq(n, 1, Len(n) - 1) ELSE Append(n, "#")
Diminish(n) == IF n[Len(n)] = "#" THEN SubSeq(n, 1, Len(n) - 1) ELSE Append(n, "b")
RemoveRedundant(n) == Spell(n[1], Net(n))

SharpTable == << <<"C">>, <<"C","#">>, <<"D">>, <<"D","#">>, <<"E">>, <<"F">>, <<"F","#">>,
                 <<"G">>, <<"G","#">>, <<"A">>, <<"A","#">>, <<"B">> >>
FlatTable  == << <<"C">>, <<"D","b">>, <<"D">>, <<"E","b">>, <<"E">>, <<"F">>, <<"G","b">>,
                 <<"G">>, <<"A","b">>, <<"A">>, <<"B","b">>, <<"B">> >>
IntToNote(i, style) == IF style = "#" THEN SharpTable[i + 1] ELSE FlatTable[i + 1]
Reduce(n) == IF Net(n) >= 0 THEN IntToNote(PC(n), "#") ELSE IntToNote(PC(n), "b")

\* ---- name spaces ----
AccStrings(k) == UNION {[1..j -> AccSet] : j \in 0..k}
Names(k) == {<<L>> \o s : L \in LetterSet, s \in AccStrings(k)}
\* the 35 standard names: 7 letters x {bb, b, natural, #, ##}
N35 == {Spell(L, a) : L \in LetterSet, a \in -2..2}
N21 == {Spell(L, a) : L \in LetterSet, a \in -1..1}

\* ---- Laws (property C01) ----
LawPc(n, r)      == r = PC(n)
\* sharp style: naturals and single sharps only; flat style: naturals and single flats only
LawIntToNote(i, style, r) ==
    /\ Valid(r) /\ PC(r) = i /\ NAcc(r) <= 1
    /\ (style = "#" => Flats(r) = 0)
    /\ (style = "b" => Sharps(r) = 0)
LawEnh(a, b, r)  == r = (PC(a) = PC(b))
LawAug(n, r)     == Valid(r) /\ Letter(r) = Letter(n) /\ PC(r) = Mod12(PC(n) + 1)
LawDim(n, r)     == Valid(r) /\ Letter(r) = Letter(n) /\ PC(r) = Mod12(PC(n) - 1)
LawRra(n, r)     == r = Spell(Letter(n), Net(n))
LawReduce(n, r)  == /\ Valid(r) /\ PC(r) = PC(n) /\ NAcc(r) <= 1
                    /\ (NAcc(r) = 1 /\ Net(n) > 0 => r[2] = "#")
                    /\ (NAcc(r) = 1 /\ Net(n) < 0 => r[2] = "b")
=============================================================================
