----------------------------- MODULE Trace_C02 -----------------------------
EXTENDS Intervals, TLC, Json, IOUtils
Trace == ndJsonDeserialize(IOEnv.TRACE)
VARIABLES l, bad, nbad
Flag(f, dflt) == IF f = 2 THEN dflt ELSE f = 1
Clause(e) ==
  CASE e.op \in CtorNames ->
         IF ~e.ok THEN "ctor-raised"
         ELSE IF ~LawCtorCore(e.op, e.in.n, e.out) THEN "ctor-letter-semitone"
         ELSE IF ~LawCtorSpelling(e.out) THEN "ctor-spelling" ELSE "ok"
    [] e.op = "measure" -> IF e.ok /\ e.out = Measure(e.in.a, e.in.b) THEN "ok" ELSE "measure"
    [] e.op = "is_perfect_consonant" ->
         IF e.ok /\ e.out = PerfectConsonant(e.in.a, e.in.b, Flag(e.in.f, TRUE)) THEN "ok" ELSE "perfect-consonant"
    [] e.op = "is_imperfect_consonant" ->
         IF e.ok /\ e.out = ImperfectConsonant(e.in.a, e.in.b) THEN "ok" ELSE "imperfect-consonant"
    [] e.op = "is_consonant" ->
         IF e.ok /\ e.out = Consonant(e.in.a, e.in.b, Flag(e.in.f, TRUE)) THEN "ok" ELSE "consonant"
    [] e.op = "is_dissonant" ->   \* dissonant = not consonant; its flag says whether fourths count as dissonant
         IF e.ok /\ e.out = ~Consonant(e.in.a, e.in.b, ~Flag(e.in.f, FALSE)) THEN "ok" ELSE "dissonant"
    [] OTHER -> "unknown-op"
W == INSTANCE Walk
Spec == W!Spec
Consumed == W!Consumed
=============================================================================
