------------------------------ MODULE Gen_C20 ------------------------------
(* Programs for tablature: single-track programs on the standard guitar with    *)
(* playable notes / chords, rests, and some unplayable entries.                 *)
EXTENDS Tab, Value, Bar, TLC, Json
CONSTANTS D
VARIABLES prog, steps
Val(b, d, r) == [b |-> b, d |-> d, r |-> r]
Vals == {Val(2, 0, <<1,1>>), Val(3, 0, <<1,1>>), Val(4, 0, <<1,1>>), Val(5, 0, <<1,1>>), Val(4, 1, <<1,1>>)}
N(n, o) == [n |-> n, o |-> o, ch |-> 1, vel |-> 64]
Contents == {<<>>, <<N(<<"E">>, 2)>>, <<N(<<"A">>, 3)>>, <<N(<<"C","#">>, 4)>>, <<N(<<"G">>, 5)>>, <<N(<<"B","b">>, 2)>>, <<N(<<"D">>, 6)>>,
             <<N(<<"E">>, 2), N(<<"B">>, 2), N(<<"E">>, 3)>>, <<N(<<"C">>, 3), N(<<"E">>, 3), N(<<"G">>, 3), N(<<"C">>, 4)>>,
             <<N(<<"A">>, 4), N(<<"C","#">>, 5)>>, <<N(<<"F">>, 2), N(<<"A","#">>, 2), N(<<"G">>, 3)>>, <<N(<<"D">>, 3), N(<<"A">>, 3), N(<<"F","#">>, 4)>>}
Unplayable == {<<N(<<"C">>, 1)>>, <<N(<<"E">>, 2), N(<<"F">>, 2)>>, <<N(<<"E">>, 2), N(<<"E">>, 5), N(<<"F">>, 5)>>}
BarLen(b) == MeterLength(b.meter[1], b.meter[2])
BarTotal(b) == LET F(acc, e) == acc + e.t IN FoldLeft(F, 0, b.entries)
EmptyB == [key |-> <<"C">>, meter |-> <<4,4>>, entries |-> <<>>]
LastT == prog.tracks[1]
LastB == IF LastT.bars = <<>> THEN EmptyB ELSE LastT.bars[Len(LastT.bars)]
Init == /\ \E w \in {60, 80, 100}, bad \in {0, 0, 0, 1} :
            prog = [bpm |-> 120, repeat |-> 0, width |-> w, bad |-> bad, tracks |-> <<[name |-> <<84>>, instr |-> [kind |-> "none", nr |-> 0], bars |-> <<>>]>>]
        /\ steps = 0
AddBar == /\ Len(LastT.bars) < 4 /\ (LastT.bars = <<>> \/ LastB.entries # <<>>)
          /\ \E m \in {<<4,4>>, <<3,4>>, <<6,8>>} : prog' = [prog EXCEPT !.tracks[1].bars = Append(@, [key |-> <<"C">>, meter |-> m, entries |-> <<>>])]
AddEntry == /\ LastT.bars # <<>> /\ Len(LastB.entries) < 5
            /\ \E v \in Vals, c \in Contents \cup (IF prog.bad = 1 THEN Unplayable ELSE {}) :
                 /\ BarTotal(LastB) + Ticks(v) <= BarLen(LastB)
                 /\ prog' = [prog EXCEPT !.tracks[1].bars[Len(LastT.bars)].entries = Append(@, [v |-> v, t |-> Ticks(v), rest |-> c = <<>>, notes |-> c, bpm |-> 0])]
Next == steps < D /\ steps' = steps + 1 /\ (AddEntry \/ AddBar)
Emit == steps = D /\ steps' = D + 1 /\ UNCHANGED prog /\ PrintT("@@" \o ToJson(prog))
Spec == Init /\ [][Next \/ Emit]_<<prog, steps>>
=============================================================================
