------------------------------- MODULE Scales -------------------------------
(* Scale classes as step patterns; ascending / descending forms; degrees;     *)
(* recognition by brute force (property C05).                                 *)
EXTENDS Keys

Modes == {"Ionian", "Dorian", "Phrygian", "Lydian", "Mixolydian", "Aeolian", "Locrian"}
MajorFamily == {"Major", "HarmonicMajor"}
MinorFamily == {"NaturalMinor", "HarmonicMinor", "MelodicMinor", "Bachian", "MinorNeapolitan"}
Others == {"Chromatic", "WholeTone", "Octatonic"}
Classes == Modes \cup MajorFamily \cup MinorFamily \cup Others
Heptatonic(c) == c \notin Others

Pattern(c) ==
  CASE c \in {"Ionian", "Major"} -> <<2,2,1,2,2,2,1>>
    [] c = "Dorian" -> <<2,1,2,2,2,1,2>>
    [] c = "Phrygian" -> <<1,2,2,2,1,2,2>>
    [] c = "Lydian" -> <<2,2,2,1,2,2,1>>
    [] c = "Mixolydian" -> <<2,2,1,2,2,1,2>>
    [] c \in {"Aeolian", "NaturalMinor"} -> <<2,1,2,2,1,2,2>>
    [] c = "Locrian" -> <<1,2,2,1,2,2,2>>
    [] c = "HarmonicMajor" -> <<2,2,1,2,1,3,1>>
    [] c = "HarmonicMinor" -> <<2,1,2,2,1,3,1>>
    [] c \in {"MelodicMinor", "Bachian"} -> <<2,1,2,2,2,2,1>>
    [] c = "MinorNeapolitan" -> <<1,2,2,2,1,3,1>>
    [] c = "Chromatic" -> <<1,1,1,1,1,1,1,1,1,1,1,1>>
    [] c = "WholeTone" -> <<2,2,2,2,2,2>>
    [] c = "Octatonic" -> <<2,1,2,1,2,1,2,1>>
KindName(c) ==
  CASE c = "Major" -> "major" [] c = "HarmonicMajor" -> "harmonic major" [] c = "NaturalMinor" -> "natural minor"
    [] c = "HarmonicMinor" -> "harmonic minor" [] c = "MelodicMinor" -> "melodic minor" [] c = "Bachian" -> "Bachian"
    [] c = "MinorNeapolitan" -> "minor Neapolitan"

\* tonics valid for a class (the argument handed to the constructor)
MajorTonics == MajorKeys
MinorTonics == {Tonic(k) : k \in MinorKeys}
ValidTonic(c, t) == CASE c \in MajorFamily -> t \in MajorTonics
                      [] c \in MinorFamily -> t \in MinorTonics
                      [] c = "Chromatic" -> t \in AllKeys         \* the chromatic scale is built in a key
                      [] OTHER -> Valid(t)

Reverse(s) == [i \in 1..Len(s) |-> s[Len(s) + 1 - i]]
SumTo(p, j) == IF j = 0 THEN 0 ELSE LET S[i \in 0..j] == IF i = 0 THEN 0 ELSE S[i - 1] + p[i] IN S[j]

\* Reference: one octave of a heptatonic scale, spelled on consecutive letters
RefOctave(c, t) == [i \in 1..7 |-> SpellOn(ShiftLetter(Letter(t), i - 1), Mod12(PC(t) + SumTo(Pattern(c), i - 1)))]
Repeat(oct, n) == [i \in 1..(Len(oct) * n) |-> oct[((i - 1) % Len(oct)) + 1]]
RefAsc(c, t, n) == Append(Repeat(RefOctave(c, t), n), t)
LoweredSecond(oct) == [oct EXCEPT ![2] = Diminish(oct[2])]
RefDesc(c, t, n) ==
  CASE c = "MelodicMinor" -> Reverse(RefAsc("NaturalMinor", t, n))
    [] c = "MinorNeapolitan" -> Reverse(Append(Repeat(LoweredSecond(RefOctave("NaturalMinor", t)), n), t))
    [] OTHER -> Reverse(RefAsc(c, t, n))

\* ---- Laws ----
StartOf(c, t) == IF c = "Chromatic" THEN Tonic(t) ELSE t
LawAscending(c, t, n, r) ==
    LET p == Pattern(c) IN
    /\ Len(r) = Len(p) * n + 1
    /\ \A i \in 1..Len(r) : Valid(r[i])
    /\ r[1] = StartOf(c, t) /\ r[Len(r)] = StartOf(c, t)
    /\ \A i \in 1..(Len(r) - 1) : Mod12(PC(r[i + 1]) - PC(r[i])) = p[((i - 1) % Len(p)) + 1]
    /\ Heptatonic(c) => \A i \in 1..(Len(r) - 1) : Letter(r[i + 1]) = ShiftLetter(Letter(r[i]), 1)
\* descending form, given the observed ascending form
LawDescendingNames(c, t, n, asc, r) ==
  CASE c \in {"MelodicMinor", "MinorNeapolitan"} -> r = RefDesc(c, t, n)
    [] OTHER -> r = Reverse(asc)
RefOrRev(c, t, n, asc) == IF c \in {"MelodicMinor", "MinorNeapolitan"} THEN RefDesc(c, t, n) ELSE Reverse(asc)
LawDescendingPitches(c, t, n, asc, r) ==
    /\ Len(r) = Len(asc) /\ \A i \in 1..Len(r) : Valid(r[i])
    /\ \A i \in 1..Len(r) : PC(r[i]) = PC(RefOrRev(c, t, n, asc)[i])

\* ---- recognition ----
Family == {<<c, t>> : c \in MajorFamily, t \in MajorTonics} \cup {<<c, t>> : c \in MinorFamily, t \in MinorTonics}
FamAsc == [f \in Family |-> ToSet(RefAsc(f[1], f[2], 1))]
FamDesc == [f \in Family |-> ToSet(RefDesc(f[1], f[2], 1))]
Recognised(S) == {<<f[2], KindName(f[1])>> : f \in {g \in Family : S \subseteq FamAsc[g] \/ S \subseteq FamDesc[g]}}
=============================================================================
