SPECIFICATION Spec
CONSTANTS D = 9
 Emitting = TRUE
