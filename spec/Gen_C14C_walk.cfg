SPECIFICATION Spec
CONSTANTS D = 14
PROPERTY PropFrame
