------------------------------- MODULE MC_X04F -------------------------------
(* A MidiFile over two tracks: notes go to either track, either track or the     *)
(* whole file may be reset, and the file is rendered after every step.           *)
(* Law: the header declares exactly the chunks that follow, and the chunks are   *)
(* the non-empty tracks' events, in order.                                        *)
EXTENDS MidiTrackCalls, TLC, Json
CONSTANTS MaxLen, Emitting
VARIABLES ws, hist
Init == ws = <<Start(120), Start(90)>> /\ hist = <<>>
Step == Len(hist) < MaxLen /\ \E a \in FActs : ws' = FApply(ws, a) /\ hist' = Append(hist, a)
          /\ (Emitting /\ Len(hist') = MaxLen => PrintT("@@" \o ToJson([acts |-> hist'])))
Spec == Init /\ [][Step]_<<ws, hist>>
\* a reset track contributes no chunk until something is written to it again
ResetTrackIsSilent == \A j \in 1..2 : (hist # <<>> /\ hist[Len(hist)].op = "reset" /\ hist[Len(hist)].i = j) => ws[j].out = <<>>
=============================================================================
