------------------------------ MODULE MC_C13 ------------------------------
(* Model of the Bar: histories over a value alphabet and meters; invariants;   *)
(* also the behaviour generator (histories / fills to capacity / walks).       *)
EXTENDS Bar, TLC, Json
CONSTANTS Mode, D, ValueSet, MeterSet
VARIABLES bar, hist, ret, m0
Vals == IF ValueSet = "small"
        THEN {[b |-> 2, d |-> 0, r |-> <<1,1>>], [b |-> 3, d |-> 0, r |-> <<1,1>>], [b |-> 4, d |-> 0, r |-> <<1,1>>],
              [b |-> 5, d |-> 0, r |-> <<1,1>>], [b |-> 4, d |-> 1, r |-> <<1,1>>], [b |-> 5, d |-> 0, r |-> <<3,2>>],
              [b |-> 6, d |-> 0, r |-> <<5,4>>], [b |-> 5, d |-> 0, r |-> <<7,4>>], [b |-> 6, d |-> 0, r |-> <<1,1>>]}
        ELSE Vocabulary
Meters == IF MeterSet = "small" THEN {<<4,4>>, <<3,4>>, <<6,8>>, <<0,0>>}
          ELSE {<<4,4>>, <<3,4>>, <<6,8>>, <<12,8>>, <<5,4>>, <<2,2>>, <<0,0>>, <<2,4>>, <<7,8>>, <<9,8>>, <<3,2>>, <<1,1>>, <<5,8>>, <<4,2>>}
C1 == [rest |-> FALSE, items |-> <<[t |-> "bare", n |-> <<"C">>, o |-> 0]>>]
C2 == [rest |-> FALSE, items |-> <<[t |-> "bare", n |-> <<"E">>, o |-> 0], [t |-> "bare", n |-> <<"C">>, o |-> 0], [t |-> "pair", n |-> <<"G","#">>, o |-> 3]>>]
RestArg == [rest |-> TRUE, items |-> <<>>]
\* one plain name / two plain names: given to the bar as a string, a Note, a list or a container (the replay driver cycles the forms)
C3 == [rest |-> FALSE, items |-> <<[t |-> "bare", n |-> <<"D">>, o |-> 0]>>]
C4 == [rest |-> FALSE, items |-> <<[t |-> "bare", n |-> <<"F">>, o |-> 0], [t |-> "bare", n |-> <<"A","b">>, o |-> 0]>>]
P0 == [rest |-> FALSE, items |-> <<[t |-> "pair", n |-> <<"C">>, o |-> 0], [t |-> "pair", n |-> <<"G">>, o |-> 0]>>]     \* [name, octave] pairs in the lowest octave
E0 == [rest |-> FALSE, items |-> <<>>]          \* an empty list / an empty container: becomes an (empty) note container
Acts(b) ==
  {[op |-> "place_notes", v |-> v, arg |-> C1] : v \in Vals} \cup
  {[op |-> "place_notes", v |-> [b |-> 4, d |-> 0, r |-> <<1,1>>], arg |-> a] : a \in {E0, P0}} \cup
  {[op |-> "place_rest", v |-> v] : v \in Vals} \cup
  {[op |-> "plus", arg |-> C2]} \cup
  (IF b.entries # <<>> THEN {[op |-> "remove_last"]} ELSE {})
\* content edits and meter changes: only in random walks (they are not part of the accounting invariants' alphabet)
EditActs(b) ==
  {[op |-> "set_item", i |-> i, arg |-> a] : i \in 1..Len(b.entries), a \in {C2, C3, C4, RestArg}} \cup
  {[op |-> "place_at", i |-> i, arg |-> C2] : i \in {j \in 1..Len(b.entries) : ~b.entries[j].c.rest /\ \A k \in 1..Len(b.entries) : b.entries[k].at = b.entries[j].at => k = j}} \cup
  {[op |-> "set_meter", count |-> m[1], unit |-> m[2]] : m \in {<<4,4>>, <<6,8>>, <<3,6>>, <<5,4>>, <<0,0>>, <<2,3>>, <<12,8>>, <<4,5>>, <<3,2>>, <<7,12>>, <<4,-4>>, <<3,-1>>, <<4,0>>, <<2,-2>>, <<6,-8>>}}      \* (meters of count 0 with a beat unit are exercised by systematic cases of the plan, not by the walks: a walk that enters such a bar stays in finding F13-02)
Step(b, a) == CASE a.op = "place_notes" -> Place(b, a.v, a.arg)
                [] a.op = "place_rest" -> Place(b, a.v, RestArg)
                [] a.op = "plus" -> Place(b, PlusValue(b), a.arg)
                [] a.op = "remove_last" -> RemoveLast(b)
                [] a.op = "set_item" -> SetItem(b, a.i, a.arg)
                [] a.op = "place_at" -> PlaceAt(b, a.i, a.arg)
                [] a.op = "set_meter" -> SetMeter(b, a.count, a.unit)
Init == \E m \in Meters : bar = NewBar(m) /\ hist = <<>> /\ ret = TRUE /\ m0 = m
Next == \E a \in Acts(bar) \cup (IF Mode = "walk" THEN EditActs(bar) ELSE {}) :
          /\ bar' = Step(bar, a)
          /\ ret' = (a.op = "remove_last" \/ Len(bar'.entries) > Len(bar.entries))
          /\ UNCHANGED m0
          /\ Len(hist) < D /\ hist' = (IF Mode = "mc" THEN <<>> ELSE Append(hist, a))
          /\ (Mode \in {"hist", "walk"} /\ Len(hist') = D => PrintT("@@" \o ToJson([meter |-> m0, acts |-> hist'])))
          /\ (Mode = "exact" /\ bar'.len # Unbounded /\ Total(bar'.entries) = bar'.len /\ a.op # "remove_last"
                => PrintT("@@" \o ToJson([meter |-> m0, acts |-> Append(hist', a)])))   \* one more attempt after the exact fill
Spec == Init /\ [][Next]_<<bar, hist, ret, m0>>
MCNext == \E a \in Acts(bar) : /\ bar' = Step(bar, a) /\ hist' = <<>> /\ UNCHANGED m0
                               /\ ret' = (a.op = "remove_last" \/ Len(bar'.entries) > Len(bar.entries))
                               /\ Len(bar'.entries) <= D
MCSpec == Init /\ [][MCNext]_<<bar, hist, ret, m0>>
InvPrefix == StartsArePrefixSums(bar)
InvNeverOverfull == NeverOverfull(bar)
InvFull == IsFull(bar) => bar.entries # <<>> /\ SpaceLeft(bar) <= L \div 1000
PropRefused == [][ret' = FALSE => bar' = bar]_<<bar, hist, ret, m0>>
\* place_notes_at sweep: bars longer than a whole note filled with equal values; notes are added at the beat of every entry in turn
PlaceAtCases == {[meter |-> m, v |-> v, n |-> MeterLength(m[1], m[2]) \div Ticks(v)] :
                    m \in {<<5,4>>, <<6,4>>, <<3,2>>, <<2,1>>, <<12,8>>, <<4,4>>}, v \in {[b |-> 4, d |-> 0, r |-> <<1,1>>], [b |-> 3, d |-> 0, r |-> <<1,1>>], [b |-> 5, d |-> 0, r |-> <<1,1>>]}}
\* fills to capacity: for every meter and every vocabulary value, place it until it is refused, then twice more
FillCases == {[meter |-> m, v |-> v, n |-> (MeterLength(m[1], m[2]) \div Ticks(v)) + 2] :
                 m \in Meters \ {<<0,0>>}, v \in Vocabulary}
=============================================================================
