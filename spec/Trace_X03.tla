----------------------------- MODULE Trace_X03 -----------------------------
(* Extension X03: behaviours of real instruments against Instruments.tla. *)
EXTENDS Instruments, TLC, Json, IOUtils
Trace == ndJsonDeserialize(IOEnv.TRACE)
VARIABLES l, st, bad, nbad
Act(line) == [op |-> line.op, kind |-> line.in.kind, i |-> line.in.i, lo |-> line.in.lo, hi |-> line.in.hi]
Clause(s0, line) ==
    LET s == IF line.first THEN <<>> ELSE s0
        exp == Apply(s, Act(line)) IN
    IF ~line.ok THEN "operation-raised"
    ELSE IF ~line.obs_ok THEN "question-raised"
    ELSE IF Len(line.obs) # Len(exp) THEN "instrument-count"
    ELSE IF \E j \in 1..Len(exp) : line.obs[j].lo # exp[j].lo \/ line.obs[j].hi # exp[j].hi
         THEN (IF \E j \in 1..Len(exp) : (line.op = "new" \/ j # line.in.i) /\ j <= Len(s) /\ (line.obs[j].lo # s[j].lo \/ line.obs[j].hi # s[j].hi)
               THEN "another-instruments-range-changed" ELSE "range-as-set-or-default")
    ELSE IF \E j \in 1..Len(exp) : \E k \in 1..Len(line.obs[j].probes) : line.obs[j].probes[k].r # InRange(exp[j], line.obs[j].probes[k].p) THEN "note-in-range"
    ELSE IF \E j \in 1..Len(exp) : \E k \in 1..Len(line.obs[j].plays) : line.obs[j].plays[k].r # CanPlay(exp[j], line.obs[j].plays[k].ps) THEN "can-play-notes"
    ELSE IF \E j \in 1..Len(exp) : \E k \in 1..Len(line.obs[j].plays) : line.obs[j].plays[k].alias # line.obs[j].plays[k].r THEN "notes-in-range-is-an-alias"
    ELSE "ok"
\* the spec state follows the specification, re-synchronised with the observed ranges
NextState(s0, line) ==
    IF line.obs_ok THEN LET s == IF line.first THEN <<>> ELSE s0 exp == Apply(s, Act(line)) IN
         [j \in 1..Len(line.obs) |-> [kind |-> IF j <= Len(exp) THEN exp[j].kind ELSE "generic", lo |-> line.obs[j].lo, hi |-> line.obs[j].hi]]
    ELSE s0
InitState == <<>>
W == INSTANCE WalkS
Spec == W!Spec
Consumed == W!Consumed
=============================================================================
