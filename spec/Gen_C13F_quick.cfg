INIT FInit
NEXT FNext
CONSTANTS Mode = "mc"
 D = 0
 ValueSet = "small"
 MeterSet = "small"
