SPECIFICATION Spec
CONSTANTS Keys = {"C", "G", "e"}
 ByReference = FALSE
INVARIANT AnswersNeverChange
