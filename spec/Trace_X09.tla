----------------------------- MODULE Trace_X09 -----------------------------
(* Extension X09: recorded calls of intervals.get_interval against GetInterval.tla *)
EXTENDS GetInterval, TLC, Json, IOUtils
Trace == ndJsonDeserialize(IOEnv.TRACE)
VARIABLES l, bad, nbad
CKey == <<"C">>
Clause(e) ==
  CASE e.op = "get_interval" ->
         LET key == IF e.in.default THEN CKey ELSE e.in.key IN
         IF ~e.ok THEN "get-interval-raised"
         ELSE IF ~IsSeq(e.out) \/ ~Valid(e.out) THEN "answer-is-a-note-name"
         ELSE IF ~LawRel(e.in.note, e.in.n, key, e.out) THEN "half-notes-away-on-the-key"
         ELSE IF ~LawSpelledOnKey(e.in.note, key, e.out) THEN "spelled-on-the-key"
         ELSE IF e.out # Impl(e.in.note, e.in.n, key) THEN "machine-answer"
         ELSE IF ~Law(e.in.note, e.in.n, key, e.out) THEN (IF KeyAltersLetter(key, e.in.note) THEN "half-notes-away-from-a-note-on-a-letter-the-key-alters"
                                                           ELSE "half-notes-away-from-the-given-note")
         ELSE "ok"
    [] e.op = "badkey" -> IF ~e.ok /\ e.err \in {"NoteFormatError", "FormatError", "RangeError"} THEN "ok" ELSE "reject-bad-key"
    [] OTHER -> "unknown-op"
W == INSTANCE Walk
Spec == W!Spec
Consumed == W!Consumed
=============================================================================
