SPECIFICATION Spec
POSTCONDITION Consumed
