SPECIFICATION Spec
POSTCONDITION Consumed
