------------------------------ MODULE Gen_C17T ------------------------------
(* C17: bars whose values are ANY whole number of MIDI ticks (value = 288 / k), *)
(* not only the documented vocabulary: one 4/4 bar of 288 ticks cut in two or    *)
(* three entries (the middle one a rest).                                         *)
EXTENDS Naturals, Sequences, TLC, Json, IOUtils, SequencesExt
CONSTANTS Mids
Q_Mids == {1, 5, 7, 14, 31, 56}
T_Mids == {1, 2, 5, 7, 11, 13, 14, 28, 31, 56, 59, 62, 77, 95, 112}
N1 == [n |-> <<"C">>, o |-> 4, ch |-> 1, vel |-> 64]
N2 == [n |-> <<"E","b">>, o |-> 3, ch |-> 9, vel |-> 1]
N3 == [n |-> <<"F","#">>, o |-> 5, ch |-> 0, vel |-> 127]
E(k, ns) == [mt |-> k, notes |-> ns]
Cases == {[kind |-> "ticks", entries |-> <<E(k, <<N1>>), E(288 - k, <<N2, N3>>)>>] : k \in 1..287} \cup
         {[kind |-> "ticks", entries |-> <<E(k, <<N3>>), E(j, <<>>), E(288 - k - j, <<N1>>)>>] : k \in Mids, j \in Mids} \cup
         {[kind |-> "ticks", entries |-> <<E(j, <<>>), E(k, <<N2>>), E(288 - k - j, <<N1, N3>>)>>] : k \in Mids, j \in Mids}
VARIABLE done
Init == done = ndJsonSerialize(IOEnv.OUT, SetToSeq(Cases))
Next == FALSE /\ done' = done
=============================================================================
