-------------------------------- MODULE Walk --------------------------------
(* Generic walker over a trace of INDEPENDENT records: one TLC step per       *)
(* record; the verdict is total (the walk never stops at a mismatch); the     *)
(* list of rejected records <<line, clause>> is written to IOEnv.OUT.         *)
EXTENDS Naturals, Sequences, FiniteSets, TLC, Json, IOUtils, SequencesExt
CONSTANTS Trace, Clause(_)
VARIABLES l, bad, nbad
MaxBad == 1000000
Init == l = 1 /\ bad = {} /\ nbad = 0
Step == /\ l <= Len(Trace)
        /\ LET c == Clause(Trace[l]) IN
             /\ bad' = IF c = "ok" \/ nbad >= MaxBad THEN bad ELSE bad \cup {<<l, c>>}
             /\ nbad' = IF c = "ok" THEN nbad ELSE nbad + 1
        /\ l' = l + 1
Finish == /\ l = Len(Trace) + 1
          /\ ndJsonSerialize(IOEnv.OUT, <<[n |-> Len(Trace), nbad |-> nbad]>> \o SetToSeq(bad))
          /\ l' = l + 1 /\ UNCHANGED <<bad, nbad>>
Next == Step \/ Finish
Spec == Init /\ [][Next]_<<l, bad, nbad>>
\* acceptance of the walk itself: every line was consumed (diameter = lines + 2)
Consumed == TLCGet("stats").diameter = Len(Trace) + 2
=============================================================================
