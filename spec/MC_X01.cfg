SPECIFICATION Spec
INVARIANT EmitterAccepted
INVARIANT CorruptionsRejected
