-------------------------------- MODULE Keys --------------------------------
(* The 30 keys, derived from the circle of fifths (property C04).            *)
(* A key is a character sequence: major keys start with an upper-case letter *)
(* (<<"E","b">>), minor keys with a lower-case letter (<<"f","#">>).          *)
EXTENDS Intervals

FifthsSeq == <<"F", "C", "G", "D", "A", "E", "B">>
Lower(L) == CASE L = "A" -> "a" [] L = "B" -> "b" [] L = "C" -> "c" [] L = "D" -> "d"
              [] L = "E" -> "e" [] L = "F" -> "f" [] L = "G" -> "g"
Upper(c) == CASE c = "a" -> "A" [] c = "b" -> "B" [] c = "c" -> "C" [] c = "d" -> "D"
              [] c = "e" -> "E" [] c = "f" -> "F" [] c = "g" -> "G" [] OTHER -> c
LowerSet == {"a", "b", "c", "d", "e", "f", "g"}
Sigs == -7..7

\* the note reached from F by p perfect fifths (p may be negative): letter cycles, one more
\* accidental each time the cycle of seven letters is completed
FloorDiv7(p) == ((p + 70) \div 7) - 10
FifthNote(p) == Spell(FifthsSeq[((p + 70) % 7) + 1], FloorDiv7(p))

\* major tonic with signature s: s fifths above C (C is one fifth above F)
MajorTonic(s) == FifthNote(s + 1)
\* relative minor: a major sixth above = three more fifths
MinorTonicName(s) == FifthNote(s + 4)
MajorKey(s) == MajorTonic(s)
MinorKey(s) == <<Lower(MinorTonicName(s)[1])>> \o Tail(MinorTonicName(s))
MajorKeys == {MajorKey(s) : s \in Sigs}
MinorKeys == {MinorKey(s) : s \in Sigs}
AllKeys == MajorKeys \cup MinorKeys
IsKey(k) == k \in AllKeys
IsMinor(k) == k[1] \in LowerSet
Sig(k) == CHOOSE s \in Sigs : k = MajorKey(s) \/ k = MinorKey(s)
Tonic(k) == <<Upper(k[1])>> \o Tail(k)

\* signature accidentals in circle-of-fifths order
SigAccidentals(s) == IF s >= 0 THEN [i \in 1..s |-> <<FifthsSeq[i], "#">>]
                     ELSE [i \in 1..(0 - s) |-> <<FifthsSeq[8 - i], "b">>]
SigLetters(s) == {SigAccidentals(s)[i][1] : i \in 1..Len(SigAccidentals(s))}
\* Reference note list: seven consecutive letters from the tonic, altered on the signature letters
KeyNotes(k) == LET s == Sig(k) t == Tonic(k) IN
   [i \in 1..7 |-> LET L == ShiftLetter(t[1], i - 1) IN
                     IF L \in SigLetters(s) THEN <<L, IF s > 0 THEN "#" ELSE "b">> ELSE <<L>>]

MajorSteps == <<2, 2, 1, 2, 2, 2, 1>>
MinorSteps == <<2, 1, 2, 2, 1, 2, 2>>
ToSet(s) == {s[i] : i \in 1..Len(s)}

\* ---- Laws C04 ----
LawKeyNotes(k, r) ==
    /\ Len(r) = 7 /\ \A i \in 1..7 : Valid(r[i])
    /\ r[1] = Tonic(k)                                                   \* starts on the tonic
    /\ \A i \in 1..7 : Letter(r[i]) = ShiftLetter(Letter(r[1]), i - 1)   \* every letter once, in order
    /\ \A i \in 1..7 : Mod12(PC(r[(i % 7) + 1]) - PC(r[i])) =
                         (IF IsMinor(k) THEN MinorSteps[i] ELSE MajorSteps[i])
    /\ {r[i] : i \in {j \in 1..7 : NAcc(r[j]) > 0}} = ToSet(SigAccidentals(Sig(k)))   \* exactly the signature
LawSigAccidentals(k, r) == r = SigAccidentals(Sig(k))
LawKeyName(k, words) ==
    words = <<Upper(k[1])>> \o (IF Len(k) = 1 THEN <<>> ELSE IF k[2] = "#" THEN <<"sharp">> ELSE <<"flat">>)
            \o <<IF IsMinor(k) THEN "minor" ELSE "major">>
\* diatonic step: the key's note `step` letters above the note's letter
LawDiatonic(k, n, step, r) == \E i \in 1..7 : /\ KeyNotes(k)[i] = r
                                              /\ Letter(r) = ShiftLetter(Letter(n), step)
=============================================================================
