SPECIFICATION Spec
CONSTANTS MaxLen = 12
 Emitting = TRUE
