INIT Init
NEXT Next
CONSTANTS M = 3
 KN = 2
