SPECIFICATION Spec
INVARIANT RefSatisfiesLaws
