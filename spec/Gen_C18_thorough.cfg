SPECIFICATION Spec
CONSTANTS MaxVoices = 4
 MaxBars = 3
