SPECIFICATION Spec
CONSTANTS D = 4
 Emitting = TRUE
