SPECIFICATION Spec
POSTCONDITION Consumed
