---------------------------- MODULE GetInterval ----------------------------
(* Extension X09: intervals.get_interval(note, n, key) - "the note an interval (in half    *)
(* notes) away from the given note", spelled on the notes of a major key.                  *)
(* Impl is the machine the code is (look the LETTER of the note up in the key, move on the *)
(* key's pitch classes, hand the note's own accidentals on); Law is what is documented.    *)
EXTENDS Keys
MajorOffsets == <<0, 2, 4, 5, 7, 9, 11>>
KeyPCs(key) == [i \in 1..7 |-> Mod12(PC(key) + MajorOffsets[i])]
\* the key's note on the letter of `note`
OnLetter(key, note) == LET kn == KeyNotes(key) IN kn[CHOOSE i \in 1..7 : kn[i][1] = note[1]]
IdxOfPC(key, pc) == CHOOSE i \in 1..7 : KeyPCs(key)[i] = pc
InKeyPCs(key, pc) == \E i \in 1..7 : KeyPCs(key)[i] = pc
Impl(note, n, key) ==
    LET kn == KeyNotes(key)
        i == CHOOSE j \in 1..7 : kn[j][1] = note[1]
        res == Mod12(KeyPCs(key)[i] + n) IN
    IF InKeyPCs(key, res) THEN kn[IdxOfPC(key, res)] \o Tail(note)
    ELSE Diminish(kn[IdxOfPC(key, Mod12(res + 1))] \o Tail(note))
\* documented: n half notes away from the given note
Law(note, n, key, r) == Valid(r) /\ PC(r) = Mod12(PC(note) + n)
\* what holds on every input: n half notes away from (the key's note on that letter, with the note's accidentals)
LawRel(note, n, key, r) == Valid(r) /\ PC(r) = Mod12(PC(OnLetter(key, note) \o Tail(note)) + n)
\* the answer is spelled on the key: a key note, or a key note lowered once, followed by the note's own accidentals
LawSpelledOnKey(note, key, r) ==
    \E i \in 1..7 : r = KeyNotes(key)[i] \o Tail(note) \/ r = Diminish(KeyNotes(key)[i] \o Tail(note))
KeyAltersLetter(key, note) == OnLetter(key, note) # <<note[1]>>
=============================================================================
