SPECIFICATION Spec
CONSTANTS MaxLen = 4
 Emitting = TRUE
