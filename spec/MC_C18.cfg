SPECIFICATION Spec
INVARIANT Theorems
