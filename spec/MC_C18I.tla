------------------------------ MODULE MC_C18I ------------------------------
(* Today's play_Bars scheduler vs the ideal semantics, and the repaired design  *)
(* vs the ideal semantics, on all pairs of small bars.                          *)
EXTENDS SequencerImpl, TLC
CONSTANT Equal      \* TRUE: both voices use the same rhythm; FALSE: any pair of rhythms
VARIABLE call
Init == call = [op |-> "init"]
Q == L \div 4
Nt(ch, o) == [n |-> <<"C">>, o |-> o, ch |-> ch, vel |-> 64]
E(t, ch, o, rest) == [t |-> t, rest |-> rest, notes |-> IF rest THEN <<>> ELSE <<Nt(ch, o)>>, bpm |-> 0]
Rhythms == {<<4>>, <<2, 2>>, <<1, 1, 2>>, <<2, 1, 1>>, <<1, 1, 1, 1>>, <<3, 1>>, <<1, 3>>}
VoiceOf(r, ch, restAt) == [i \in 1..Len(r) |-> E(r[i] * Q, ch, 3 + i, i = restAt)]
Next == call.op = "init" /\ \E r1 \in Rhythms, r2 \in Rhythms, ra \in 0..2 :
            (Equal => r1 = r2) /\ call' = [op |-> "pair", voices |-> <<VoiceOf(r1, 1, ra), VoiceOf(r2, 2, 0)>>]
Spec == Init /\ [][Next]_call
ImplRefinesIdeal == call.op = "pair" => Agrees(ImplPlayBars(call.voices, L, 120).out, call.voices, 120)
SchedRefinesIdeal == call.op = "pair" => Agrees(SchedPlayBars(call.voices, 120).out, call.voices, 120)
=============================================================================
