----------------------------- MODULE Trace_C20 -----------------------------
EXTENDS Tab, TLC, Json, IOUtils
Trace == ndJsonDeserialize(IOEnv.TRACE)
VARIABLES l, bad, nbad
Pairs(r) == [i \in 1..Len(r) |-> [j \in 1..Len(r[i]) |-> <<r[i][j][1], r[i][j][2]>>]]
Toks(ts) == {[s |-> ts[i].s, a |-> ts[i].a, b |-> ts[i].b, f |-> ts[i].f] : i \in 1..Len(ts)}
\* expected pitch sets of the sounding entries of a program track, in order
SoundingEntries(t) == LET F(acc, b) == acc \o SelectSeq([i \in 1..Len(b.entries) |-> {Num(b.entries[i].notes[j].n, b.entries[i].notes[j].o) : j \in 1..Len(b.entries[i].notes)}], LAMBDA S : S # {}) IN
                      FoldLeft(F, <<>>, t.bars)
Playable(open, S) == \/ S = {}
                     \/ Fingerings(open, SetToSortSeq(S, <), 4) # {}
AllPlayable(open, t) == \A i \in 1..Len(SoundingEntries(t)) : Playable(open, SoundingEntries(t)[i])
DecodedAll(open, blocks) == LET F(acc, blk) == acc \o DecodedBlock(open, Toks(blk.tokens)) IN FoldLeft(F, <<>>, blocks)
LayoutOk(blocks, nstrings, marker) == \A i \in 1..Len(blocks) :
    /\ blocks[i].nlines = nstrings + (IF marker THEN 1 ELSE 0)
    /\ \A j \in 1..Len(blocks[i].lens) : blocks[i].lens[j] = blocks[i].lens[1]
TabClause(e, marker) ==
    LET t == e.prog.tracks[e.in.track] open == e.tuning.open IN
    IF ~AllPlayable(open, t)
    THEN (IF ~e.ok /\ e.err \in {"FingerError", "RangeError"} THEN "ok" ELSE "unplayable-entry-raises")
    ELSE IF ~e.ok THEN "tablature-raised"
    ELSE IF ~LayoutOk(e.tab.blocks, Len(open), marker) THEN "tab-lines-equally-long-one-per-string"
    ELSE IF DecodedAll(open, e.tab.blocks) # SoundingEntries(t) THEN "tab-decodes-to-the-same-pitches"
    ELSE "ok"
Clause(e) ==
  CASE e.op = "find_frets" ->
         IF e.ok /\ LawFindFrets(e.tuning.open, e.in.p, e.in.maxfret, e.out) THEN "ok" ELSE "fret-is-semitone-distance"
    [] e.op = "get_Note" ->
         IF e.in.s \in 0..(Len(e.tuning.open) - 1) /\ e.in.f \in 0..e.in.maxfret
         THEN (IF e.ok /\ e.out = e.tuning.open[e.in.s + 1] + e.in.f THEN "ok" ELSE "note-at-string-and-fret")
         ELSE (IF ~e.ok /\ e.err = "RangeError" THEN "ok" ELSE "string-or-fret-out-of-range-rejected")
    [] e.op = "get_tunings" ->      \* every returned tuning satisfies all given constraints
         IF e.ok /\ \A i \in 1..Len(e.out) :
               /\ (e.in.instr = <<>> \/ (Len(e.out[i].instr) >= Len(e.in.instr) /\ SubSeq(e.out[i].instr, 1, Len(e.in.instr)) = e.in.instr))
               /\ (e.in.descr = <<>> \/ (Len(e.out[i].descr) >= Len(e.in.descr) /\ SubSeq(e.out[i].descr, 1, Len(e.in.descr)) = e.in.descr))
               /\ (e.in.strings = None \/ e.out[i].strings = e.in.strings)
               /\ (e.in.courses = None \/ e.out[i].courses_total = e.in.courses * e.out[i].strings)
         THEN "ok" ELSE "tuning-lookup-satisfies-constraints"
    [] e.op = "find_fingering" ->
         IF e.ok /\ LawFindFingering(e.tuning.open, e.in.notes, e.in.maxdist, Pairs(e.out)) THEN "ok" ELSE "fingerings-exactly-the-valid-assignments-ordered"
    [] e.op = "find_chord_fingering" ->
         IF ~e.ok /\ e.tuning.courses_total # e.tuning.strings THEN "ok"     \* course tunings are outside the guitar-family domain of this clause
         ELSE IF e.ok /\ \A i \in 1..Len(e.out) : LawChordFingering(e.tuning.open, {PC(e.names[j]) : j \in 1..Len(e.names)}, e.in.maxdist, e.out[i])
                                              /\ FingersNeeded(e.out[i]) <= e.in.maxfingers
         THEN "ok" ELSE "chord-fingering-sound"
    [] e.op \in {"tab_Note", "tab_NoteContainer"} -> TabClause(e, FALSE)
    [] e.op \in {"tab_Bar", "tab_Track", "tab_Composition"} -> TabClause(e, TRUE)
    [] e.op = "build" -> "ok"
    [] OTHER -> "unknown-op"
W == INSTANCE Walk
Spec == W!Spec
Consumed == W!Consumed
=============================================================================
