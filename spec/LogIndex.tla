------------------------------ MODULE LogIndex ------------------------------
(***************************************************************************)
(* EXTENSION X05: the frequency-to-index lookup with position memory of     *)
(* mingus.extra.fft (_find_log_index), as a refinement.                      *)
(*   Specification: over a strictly increasing table T[0..N] of positive    *)
(*   numbers, Index(f) is the least n with f <= T[n]; N when f is not        *)
(*   positive or lies above T[N-1].                                           *)
(*   Implementation-shaped machine: the code's algorithm - a remembered      *)
(*   (slot, value) pair that short-cuts a lookup when the new value is not   *)
(*   below the remembered one and falls in the same or the next slot, else a *)
(*   bisection started from the remembered slot.                              *)
(* TLC checks, for EVERY table of a small size and EVERY sequence of         *)
(* lookups, that the machine answers Index(f) whatever it remembers          *)
(* (MC_X05: invariant MemoryIsSound, action property AnswersAreIndex).        *)
(* C15 asks only that answers do not depend on history; this says what the   *)
(* answer is.                                                                  *)
(***************************************************************************)
EXTENDS Naturals, Integers, Sequences
CONSTANTS N,
          Guarded      \* TRUE: the repaired code (the "next slot" short cut is not taken from the last slot); FALSE: the code before the repair
\* T is passed as an argument everywhere: a function 0..N -> positive integers, strictly increasing
Below(T, n) == IF n = 0 THEN 0 ELSE T[n - 1]
Index(T, f) == IF f <= 0 \/ f > T[N - 1] THEN N
               ELSE CHOOSE n \in 0..(N - 1) : Below(T, n) < f /\ f <= T[n]
NoMem == <<-1, 0>>
Raises == -2
\* bisection of the code: returns <<index, remembered pair>>
RECURSIVE Bisect(_, _, _, _)
Bisect(T, f, begin, end) ==
    IF begin = end THEN <<begin, <<begin, f>>>>
    ELSE LET n == (begin + end) \div 2 c == T[n] cp == Below(T, n) IN
         IF cp < f /\ f <= c THEN <<n, <<n, f>>>>
         ELSE IF f < c THEN Bisect(T, f, begin, n) ELSE Bisect(T, f, n, end)
\* one lookup: <<answer, new memory>>
Lookup(T, mem, f) ==
    LET lastn == mem[1] lastval == mem[2]
        short == mem # NoMem /\ f >= lastval IN
    IF short /\ f <= T[lastn] THEN <<lastn, <<lastn, f>>>>
    ELSE IF short /\ lastn + 1 > N /\ ~Guarded THEN <<Raises, mem>>          \* reads T[N + 1]: IndexError in the code
    ELSE IF short /\ lastn + 1 <= N /\ f <= T[lastn + 1] THEN <<lastn + 1, <<lastn + 1, f>>>>
    ELSE IF f > T[N - 1] \/ f <= 0 THEN <<N, mem>>
    ELSE Bisect(T, f, IF short THEN lastn ELSE 0, N)
\* what the memory must satisfy for the short cuts to be right
MemoryIsSoundFor(T, mem) == mem = NoMem \/ (mem[1] \in 0..N /\ Below(T, mem[1]) < mem[2] /\ mem[2] <= T[mem[1]])
=============================================================================
