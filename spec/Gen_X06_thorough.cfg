SPECIFICATION Spec
CONSTANTS MaxLen = 3
 Emitting = TRUE
