SPECIFICATION Spec
POSTCONDITION Consumed
