SPECIFICATION Spec
POSTCONDITION Consumed
