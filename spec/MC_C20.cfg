SPECIFICATION Spec
INVARIANT Theorems
