SPECIFICATION Spec
POSTCONDITION Consumed
