SPECIFICATION Spec
INVARIANT ImplKeepsRel
INVARIANT ImplSpelledOnKey
INVARIANT ImplMeetsLawOnPlainLetters
INVARIANT ImplOffByKeyAccidental
INVARIANT KeyTable
INVARIANT Periodic
