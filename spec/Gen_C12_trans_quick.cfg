SPECIFICATION GSpec
CONSTANTS MaxLen = 2
 Emit = FALSE
 Mode = "trans"
 D = 0
