--------------------------------- MODULE Bar ---------------------------------
(* The Bar as a state machine with EXACT time accounting in integer ticks      *)
(* (property C13).  State: meter, length (ticks; Unbounded for the (0,0)       *)
(* meter) and the entries <<start, value, content>>.                           *)
EXTENDS NoteContainer, Value

Unbounded == -1
Rest == [rest |-> TRUE, notes |-> <<>>]
Sounding(notes) == [rest |-> FALSE, notes |-> notes]
\* content denoted by an argument: None stays a rest; strings, notes, lists and containers become a container
ContentOf(arg) == IF arg.rest THEN Rest ELSE Sounding(AddList(<<>>, arg.items))

Log2(u) == IF \E k \in 0..12 : Pow2(k) = u THEN CHOOSE k \in 0..12 : Pow2(k) = u ELSE 0      \* total: 0 for a unit that is no power of two
UnitValue(u) == [b |-> Log2(u) + 2, d |-> 0, r |-> <<1, 1>>]
MeterLength(count, unit) == IF count = 0 /\ unit = 0 THEN Unbounded ELSE (count * L) \div unit
MeterAccepted(count, unit) == (count = 0 /\ unit = 0) \/ (unit >= 1 /\ IsPow2(unit))

NewBar(meter) == [meter |-> meter, len |-> MeterLength(meter[1], meter[2]), entries |-> <<>>]
Total(entries) == IF entries = <<>> THEN 0 ELSE entries[Len(entries)].at + entries[Len(entries)].t
Fits(b, t) == b.len = Unbounded \/ Total(b.entries) + t <= b.len
\* placing a value of t ticks with content c: accepted exactly when it fits, appends one entry; refused changes nothing
PlaceT(b, t, c) == IF Fits(b, t) THEN [b EXCEPT !.entries = Append(@, [at |-> Total(b.entries), t |-> t, c |-> c])] ELSE b
Place(b, v, arg) == PlaceT(b, Ticks(v), ContentOf(arg))
PlusValue(b) == IF b.meter[2] # 0 THEN UnitValue(b.meter[2]) ELSE UnitValue(4)
RemoveLast(b) == [b EXCEPT !.entries = SubSeq(@, 1, Len(@) - 1)]
SetItem(b, i, arg) == [b EXCEPT !.entries[i].c = ContentOf(arg)]
\* add notes to the sounding entry that starts at the beat of entry i
PlaceAt(b, i, arg) == [b EXCEPT !.entries[i].c = Sounding(AddList(@.notes, arg.items))]
SetMeter(b, count, unit) == IF MeterAccepted(count, unit)
                            THEN [b EXCEPT !.meter = <<count, unit>>, !.len = MeterLength(count, unit)] ELSE b

IsFull(b) == b.len # Unbounded /\ b.entries # <<>> /\ b.len - Total(b.entries) <= L \div 1000
SpaceLeft(b) == (IF b.len = Unbounded THEN 0 ELSE b.len) - Total(b.entries)

\* ---- invariants
StartsArePrefixSums(b) == \A i \in 1..Len(b.entries) :
                             b.entries[i].at = (IF i = 1 THEN 0 ELSE b.entries[i - 1].at + b.entries[i - 1].t)
NeverOverfull(b) == b.len = Unbounded \/ Total(b.entries) <= b.len
=============================================================================
