--------------------------------- MODULE Heap ---------------------------------
(* No hidden shared state (property C15).                                       *)
(*  - answers: every query of the theory API has ONE answer, whatever was       *)
(*    called before and whatever callers did to lists they were handed;         *)
(*  - arguments: a call leaves its arguments as they were;                      *)
(*  - frames: an operation on one object leaves every other object and the      *)
(*    class defaults unchanged; a copy is an independent object.                *)
(* The model below is the memo-table design question in miniature: a table      *)
(* whose rows are handed out BY REFERENCE lets a caller rewrite later answers;  *)
(* handing out COPIES does not.                                                 *)
EXTENDS Naturals, Sequences, FiniteSets, TLC
CONSTANTS Keys, ByReference
VARIABLES memo,      \* memo table: key -> row (a sequence)
          held,      \* rows the caller holds a reference to (only when ByReference)
          answers    \* what a query answered the first time it was asked: key -> row
Compute(k) == <<k, "a", "b">>
Unknown == <<>>
Init == memo = [k \in Keys |-> Unknown] /\ held = {} /\ answers = [k \in Keys |-> Unknown]
Lookup(k) == IF memo[k] = Unknown THEN Compute(k) ELSE memo[k]
\* a query: fills the memo table on a miss; its answer is what Lookup gives
Call(k) == /\ memo' = [memo EXCEPT ![k] = Lookup(k)]
           /\ held' = IF ByReference THEN held \cup {k} ELSE held
           /\ answers' = IF answers[k] = Unknown THEN [answers EXCEPT ![k] = Lookup(k)] ELSE answers
\* the caller appends to a list it was handed (environment action)
MutateReturned(k) == /\ k \in held /\ Len(memo[k]) < 5
                     /\ memo' = [memo EXCEPT ![k] = Append(@, "X")]
                     /\ UNCHANGED <<held, answers>>
\* with copies the caller's mutation touches only its own copy: a stuttering step for the library
MutateCopy(k) == ~ByReference /\ UNCHANGED <<memo, held, answers>>
Next == \E k \in Keys : Call(k) \/ MutateReturned(k) \/ MutateCopy(k)
Spec == Init /\ [][Next]_<<memo, held, answers>>
\* the answer a query would give now equals the answer it gave first
AnswersNeverChange == \A k \in Keys : answers[k] # Unknown => Lookup(k) = answers[k]
=============================================================================
