------------------------------ MODULE MC_C04 ------------------------------
EXTENDS Keys, TLC
VARIABLE call
Init == call = [op |-> "init"]
Next == call.op = "init" /\
  \/ \E s \in Sigs, minor \in BOOLEAN : call' = [op |-> "key", s |-> s, k |-> IF minor THEN MinorKey(s) ELSE MajorKey(s)]
  \/ \E k \in AllKeys, n \in N21, st \in 1..6 : call' = [op |-> "step", k |-> k, n |-> n, st |-> st]
Spec == Init /\ [][Next]_call
RefSatisfiesLaws ==
  CASE call.op = "key" ->
        /\ LawKeyNotes(call.k, KeyNotes(call.k))
        /\ Sig(call.k) = call.s
        /\ Len(SigAccidentals(call.s)) = (IF call.s >= 0 THEN call.s ELSE 0 - call.s)
        \* relatives: inverse, same note set, minor tonic 9 semitones above the major tonic
        /\ ToSet(KeyNotes(MajorKey(call.s))) = ToSet(KeyNotes(MinorKey(call.s)))
        /\ Mod12(PC(Tonic(MinorKey(call.s))) - PC(MajorKey(call.s))) = 9
        /\ Valid(Tonic(call.k))
    [] call.op = "step" -> \E r \in ToSet(KeyNotes(call.k)) : LawDiatonic(call.k, call.n, call.st, r)
    [] OTHER -> TRUE
Theorems == /\ Cardinality(AllKeys) = 30 /\ Cardinality(MajorKeys) = 15 /\ MajorKeys \cap MinorKeys = {}
            /\ MajorKey(0) = <<"C">> /\ MinorKey(0) = <<"a">> /\ MajorKey(-7) = <<"C","b">> /\ MinorKey(7) = <<"a","#">>
            /\ MajorKey(6) = <<"F","#">> /\ MinorKey(-3) = <<"c">> /\ MinorKey(2) = <<"b">>
=============================================================================
