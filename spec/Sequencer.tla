------------------------------ MODULE Sequencer ------------------------------
(* Ideal playback semantics (property C18).  Playback is a sequence of         *)
(* INSTANTS separated by sleeps: at an instant, entries that end are stopped   *)
(* and entries that start are played; the sleep to the next instant is the     *)
(* distance in whole notes times 240/bpm seconds, bpm following the tempo       *)
(* changes carried by containers.  Sleeps are expressed in ticks (1/215040      *)
(* whole note) AT THE INITIAL TEMPO, so that a tempo change to b scales the      *)
(* following sleeps by bpm0/b.                                                   *)
EXTENDS MidiSem

\* an event: [k, p, ch, v]: k = "play" (pitch p, channel, velocity), "stop" (pitch, channel), "instr" (p = program, v = bank),
\* "cc" (p = control number, v = value)
SEv(k, p, ch, v) == [k |-> k, p |-> p, ch |-> ch, v |-> v]
\* a voice is a sequence of entries [t, rest, notes, bpm]; absolute start of entry i
StartOf(voice, i) == LET F(acc, e) == acc + e.t IN FoldLeft(F, 0, SubSeq(voice, 1, i - 1))
VoiceLen(voice) == StartOf(voice, Len(voice) + 1)
Boundaries(voices) == UNION {{StartOf(voices[v], i) : i \in 1..(Len(voices[v]) + 1)} : v \in 1..Len(voices)}
PlaysAt(voices, tau) == LET F(acc, v) == acc \o LET ix == {i \in 1..Len(voices[v]) : StartOf(voices[v], i) = tau /\ ~voices[v][i].rest} IN
                              IF ix = {} THEN <<>> ELSE LET e == voices[v][CHOOSE i \in ix : TRUE] IN
                              [j \in 1..Len(e.notes) |-> SEv("play", MidiPitch(e.notes[j]), e.notes[j].ch, e.notes[j].vel)] IN
                        FoldLeft(F, <<>>, [v \in 1..Len(voices) |-> v])
StopsAt(voices, tau) == LET F(acc, v) == acc \o LET ix == {i \in 1..Len(voices[v]) : StartOf(voices[v], i + 1) = tau /\ ~voices[v][i].rest} IN
                              IF ix = {} THEN <<>> ELSE LET e == voices[v][CHOOSE i \in ix : TRUE] IN
                              [j \in 1..Len(e.notes) |-> SEv("stop", MidiPitch(e.notes[j]), e.notes[j].ch, 0)] IN
                        FoldLeft(F, <<>>, [v \in 1..Len(voices) |-> v])
\* tempo in force after instant tau (a starting container with a bpm changes it; otherwise it stays)
TempoAt(voices, tau, cur) == LET cands == UNION {{voices[v][i].bpm : i \in 1..Len(voices[v])} : v \in 1..Len(voices)} IN
    IF \E v \in 1..Len(voices) : \E i \in 1..Len(voices[v]) : StartOf(voices[v], i) = tau /\ ~voices[v][i].rest /\ voices[v][i].bpm > 0
    THEN (CHOOSE b \in cands : \E v \in 1..Len(voices) : \E i \in 1..Len(voices[v]) :
              StartOf(voices[v], i) = tau /\ ~voices[v][i].rest /\ voices[v][i].bpm = b /\ b > 0)
    ELSE cur
\* expected playback: sequence of [evs (bag at the instant), sleep (ticks at bpm0 until the next instant; 0 after the last)]
SortedSeq(S) == SetToSortSeq(S, <)
Expected(voices, bpm0, prelude) ==
    LET bs == SortedSeq(Boundaries(voices))
        F(acc, k) == LET tau == bs[k]
                         bpm == TempoAt(voices, tau, acc.bpm)
                         sl == IF k = Len(bs) THEN 0 ELSE RoundHalfEven((bs[k + 1] - tau) * bpm0, bpm) IN
                     [segs |-> Append(acc.segs, [evs |-> (IF k = 1 THEN prelude ELSE <<>>) \o StopsAt(voices, tau) \o PlaysAt(voices, tau), sleep |-> sl]),
                      bpm |-> bpm]
    IN FoldLeft(F, [segs |-> <<>>, bpm |-> bpm0], [k \in 1..Len(bs) |-> k])
\* ---- normal form of an observed flat event list: segments split at sleeps, consecutive sleeps merged
Segments(evs) ==
    LET F(acc, e) == IF e.k = "sleep"
                     THEN (IF acc.cur = <<>> /\ acc.segs # <<>> /\ acc.pending
                           THEN [acc EXCEPT !.segs[Len(acc.segs)].sleep = @ + e.p]
                           ELSE [segs |-> Append(acc.segs, [evs |-> acc.cur, sleep |-> e.p]), cur |-> <<>>, pending |-> TRUE])
                     ELSE [acc EXCEPT !.cur = Append(@, e), !.pending = FALSE]
        r == FoldLeft(F, [segs |-> <<>>, cur |-> <<>>, pending |-> FALSE], evs)
    IN Append(r.segs, [evs |-> r.cur, sleep |-> 0])
\* drop instants where nothing happens (merging their sleep into the previous one)
Compact(segs) ==
    LET F(acc, s) == IF s.evs = <<>> /\ acc # <<>> THEN [acc EXCEPT ![Len(acc)].sleep = @ + s.sleep] ELSE Append(acc, s) IN
    FoldLeft(F, <<>>, segs)
SameSegs(a, b, tol) == /\ Len(a) = Len(b)
                       /\ \A i \in 1..Len(a) : SameBag(a[i].evs, b[i].evs) /\ a[i].sleep - b[i].sleep <= tol /\ b[i].sleep - a[i].sleep <= tol
\* balanced: every play of a silent note, every stop of a sounding one, silence at the end
RECURSIVE Balanced(_, _)
Balanced(evs, sounding) ==
    IF evs = <<>> THEN sounding = {}
    ELSE LET e == evs[1] key == <<e.p, e.ch>> IN
         IF e.k = "play" THEN key \notin sounding /\ Balanced(Tail(evs), sounding \cup {key})
         ELSE IF e.k = "stop" THEN key \in sounding /\ Balanced(Tail(evs), sounding \ {key})
         ELSE Balanced(Tail(evs), sounding)
TotalSleep(evs) == LET F(acc, e) == IF e.k = "sleep" THEN acc + e.p ELSE acc IN FoldLeft(F, 0, evs)
=============================================================================
