------------------------------- MODULE BarAcctBroken -------------------------------
(***************************************************************************)
(* The time accounting of a bar (property C13) over UNBOUNDED integers,     *)
(* for Apalache: entries are two parallel sequences (start ticks `at`,      *)
(* lengths `ts`), `len` is the bar length in ticks (-1: the unbounded       *)
(* (0,0) meter).  IndInv is an inductive invariant: it holds initially and  *)
(* is preserved by every step from ANY state satisfying it (values are      *)
(* arbitrary integers; sequences up to the generator bound).  Safety is     *)
(* what C13 states.  Bar.tla's Place / RemoveLast are these actions on the  *)
(* projection entries |-> (at, t); TLC checks the bounded model, this       *)
(* removes the bound on the values.                                          *)
(***************************************************************************)
EXTENDS Integers, Sequences, Apalache
VARIABLES
    \* @type: Seq(Int);
    at,
    \* @type: Seq(Int);
    ts,
    \* @type: Int;
    len

Total == IF Len(at) = 0 THEN 0 ELSE at[Len(at)] + ts[Len(ts)]
Fits(t) == len = -1 \/ Total <= len          \* NEGATIVE CONTROL: the new value is not counted

Init == at = <<>> /\ ts = <<>> /\ len = -1          \* any other length is reached by SetMeter on the empty bar

\* placing t ticks: accepted exactly when it fits; a refused placement changes nothing
Place(t) == /\ t > 0
            /\ IF Fits(t) THEN at' = Append(at, Total) /\ ts' = Append(ts, t) ELSE UNCHANGED <<at, ts>>
            /\ UNCHANGED len
RemoveLast == /\ Len(at) > 0
              /\ at' = SubSeq(at, 1, Len(at) - 1) /\ ts' = SubSeq(ts, 1, Len(ts) - 1)
              /\ UNCHANGED len
\* a new meter on an empty bar (the library also allows it on a non-empty one; C13 quantifies over placements in a meter)
SetMeter(n) == /\ Len(at) = 0 /\ (n = -1 \/ n >= 0) /\ len' = n /\ UNCHANGED <<at, ts>>
Next == (\E t \in Int : Place(t)) \/ RemoveLast \/ (\E n \in Int : SetMeter(n))

IndInv == /\ Len(at) = Len(ts)
          /\ (len = -1 \/ len >= 0)
          /\ \A i \in DOMAIN at : /\ ts[i] > 0
                                  /\ at[i] = (IF i = 1 THEN 0 ELSE at[i - 1] + ts[i - 1])
          /\ (len = -1 \/ Total <= len)

\* what the property says
Safety == /\ \A i \in DOMAIN at : at[i] >= 0 /\ (i > 1 => at[i] > at[i - 1])          \* entries are laid end to end, in order
          /\ Total >= 0
          /\ (len # -1 => Total <= len /\ Total + (len - Total) = len)                 \* never overfull; current beat + space left = length

\* arbitrary states for the induction step (sequences up to 6 entries, any integers)
IndInit == /\ at = Gen(6) /\ ts = Gen(6) /\ len = Gen(1)
           /\ IndInv
=============================================================================
