----------------------------- MODULE Trace_C10 -----------------------------
EXTENDS NoteObj, TLC, Json, IOUtils
Trace == ndJsonDeserialize(IOEnv.TRACE)
VARIABLES l, bad, nbad
N(x) == [n |-> x.n, o |-> x.o]
Small(x) == x <= 1000 /\ x >= -1000          \* relative error in 10^-12: tolerance 10^-9
\* letter and pitch class of a transposition (what stays demanded of names carrying three or more accidentals, finding F11-01 / F11-02)
LawTransposeClass(a, sh, up, r) ==
    /\ Valid(r.n) /\ Letter(r.n) = ShiftLetter(Letter(a.n), IF up THEN ShDegree(sh) - 1 ELSE 1 - ShDegree(sh))
    /\ PC(r.n) = Mod12(PC(a.n) + (IF up THEN ShSize(sh) ELSE 0 - ShSize(sh)))
Clause(e) ==
  CASE e.op = "int" -> IF e.ok /\ e.out = Num(e.in.n, e.in.o) THEN "ok" ELSE "pitch-number"
    [] e.op = "from_int" ->
         IF e.ok /\ e.out.int = e.in.i /\ Valid(e.out.n) /\ Num(e.out.n, e.out.o) = e.in.i /\ e.out.ctor = e.in.i THEN "ok" ELSE "from-integer"
    [] e.op = "text_forms" ->
         IF ~e.ok THEN "text-forms"
         ELSE IF e.out.dash # Num(e.in.n, e.in.o) THEN "name-octave-text"
         ELSE IF e.out.printed # Num(e.in.n, e.in.o) THEN "printed-form"
         ELSE IF e.out.copy # Num(e.in.n, e.in.o) THEN "copy-pitch" ELSE "ok"
    [] e.op = "cmp" ->
         IF e.ok /\ [lt |-> e.out.lt, le |-> e.out.le, eq |-> e.out.eq, ne |-> e.out.ne, gt |-> e.out.gt, ge |-> e.out.ge] = Cmp(N(e.in.a), N(e.in.b))
         THEN "ok" ELSE "comparison"
    [] e.op = "sorted" ->
         IF e.ok /\ Len(e.out) = Len(e.in.notes)
               /\ (\A i \in 1..(Len(e.out) - 1) : NumOf(N(e.out[i])) <= NumOf(N(e.out[i + 1])))
               /\ (\A x \in {N(e.in.notes[i]) : i \in 1..Len(e.in.notes)} :
                       Cardinality({i \in 1..Len(e.out) : N(e.out[i]) = x}) = Cardinality({i \in 1..Len(e.in.notes) : N(e.in.notes[i]) = x}))
         THEN "ok" ELSE "sorting"
    [] e.op = "hz_a4" -> IF e.ok /\ Small(e.out) THEN "ok" ELSE "standard-pitch"
    [] e.op = "hz_octave" -> IF e.ok /\ Small(e.out) THEN "ok" ELSE "octave-doubling"
    [] e.op = "hz_spelling" -> IF e.ok /\ Small(e.out) THEN "ok" ELSE "frequency-is-a-function-of-pitch"     \* to_hertz(name, octave) = to_hertz(from_int(pitch number))
    [] e.op = "hz_roundtrip" -> IF e.ok /\ e.out = e.in.i THEN "ok" ELSE "hertz-round-trip"
    [] e.op = "helmholtz" -> IF e.ok /\ e.out.n = e.in.n /\ e.out.o = e.in.o THEN "ok" ELSE "helmholtz-round-trip"
    [] e.op = "velocity" ->
         IF e.in.v \in 0..127 THEN (IF e.ok /\ e.out = e.in.v THEN "ok" ELSE "velocity-accepted")
         ELSE (IF ~e.ok /\ e.err \notin {"hang"} /\ e.err # "" THEN "ok" ELSE "velocity-rejected")
    [] e.op = "channel" ->
         IF e.in.c \in 0..15 THEN (IF e.ok /\ e.out = e.in.c THEN "ok" ELSE "channel-accepted")
         ELSE (IF ~e.ok /\ e.err # "hang" THEN "ok" ELSE "channel-rejected")
    [] e.op = "badname" -> IF ~e.ok /\ e.err # "hang" THEN "ok" ELSE "malformed-name-rejected"
    [] e.op = "copy" ->
         IF e.ok /\ e.out.orig_after = e.out.orig_before /\ e.out.copy_before = e.out.orig_before
               /\ e.out.copy_after.n = Augment(e.in.n) /\ e.out.copy_after.o = e.in.o + 1
               /\ e.out.copy2_after = e.out.orig_before
         THEN "ok" ELSE "copy-independent"
    \* ---- C11 (note level) ----
    [] e.op = "transpose" ->
         IF ~SizeInDomain(e.in.sh) THEN "ok"
         ELSE IF e.ok /\ LawTranspose(N(e.in), e.in.sh, e.in.up, N(e.out)) THEN "ok"
         ELSE IF e.ok /\ NAcc(e.in.n) >= 3 /\ LawTransposeClass(N(e.in), e.in.sh, e.in.up, N(e.out)) THEN "octave-rule-on-names-with-3-or-more-accidentals"
         ELSE IF e.in.up THEN "transpose-up" ELSE "transpose-down"
    [] e.op = "transpose_updown" ->
         IF ~SizeInDomain(e.in.sh) THEN "ok"
         ELSE IF e.ok /\ N(e.out) = N(e.in) THEN "ok" ELSE "transpose-round-trip"
    [] e.op = "change_octave" -> IF e.ok /\ LawChangeOctave(e.in.o, e.in.diff, e.out) THEN "ok" ELSE "octave-floor"
    [] e.op = "augdim" ->
         IF e.ok /\ e.out.aug.n = Augment(e.in.n) /\ e.out.aug.o = e.in.o /\ (Mixed(e.in.n) \/ e.out.back = N(e.in)) /\ e.out.dim.n = Diminish(e.in.n) /\ e.out.dim.o = e.in.o
         THEN "ok" ELSE "augment-diminish"
    [] OTHER -> "unknown-op"
W == INSTANCE Walk
Spec == W!Spec
Consumed == W!Consumed
=============================================================================
