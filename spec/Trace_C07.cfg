SPECIFICATION Spec
POSTCONDITION Consumed
