------------------------------ MODULE Gen_C18 ------------------------------
(* Programs for playback: 1..3 voices (tracks) with the SAME meters, every bar  *)
(* exactly full, equal and unequal rhythms, chords, rests, tempo-changing       *)
(* containers (voice 1 only), one channel per voice.                            *)
EXTENDS Sequencer, Bar, TLC, Json
CONSTANTS MaxVoices, MaxBars
VARIABLES prog, cell, done
Val(b, d, r) == [b |-> b, d |-> d, r |-> r]
VA == <<Val(2, 0, <<1,1>>), Val(3, 0, <<1,1>>), Val(4, 0, <<1,1>>), Val(5, 0, <<1,1>>), Val(4, 1, <<1,1>>), Val(5, 0, <<3,2>>), Val(3, 1, <<1,1>>)>>
SeqsUpTo(n) == UNION {[1..k -> 1..Len(VA)] : k \in 1..n}
SumT(s) == LET F(acc, i) == acc + Ticks(VA[i]) IN FoldLeft(F, 0, s)
Fills(len) == {s \in SeqsUpTo(5) : SumT(s) = len}
F44 == Fills(L)
F34 == Fills((3 * L) \div 4)
FillsOf(m) == IF m \in {<<4,4>>, <<2,2>>, <<8,8>>} THEN F44 ELSE F34      \* 2/2 and 8/8 are as long as 4/4; 6/8 as long as 3/4
Pal(ch) == << <<>>, <<[n |-> <<"C">>, o |-> 4, ch |-> ch, vel |-> 64]>>, <<[n |-> <<"E","b">>, o |-> 3, ch |-> ch, vel |-> 100], [n |-> <<"G">>, o |-> 4, ch |-> ch, vel |-> 1]>>,
            <<[n |-> <<"F","#">>, o |-> 5, ch |-> ch, vel |-> 127]>>, <<>>, <<[n |-> <<"A">>, o |-> 2, ch |-> ch, vel |-> 90], [n |-> <<"C","#">>, o |-> 4, ch |-> ch, vel |-> 64], [n |-> <<"B">>, o |-> 5, ch |-> ch, vel |-> 0]>> >>
EntryOf(vi, ch, k, pat, withBpm) == LET c == Pal(ch)[((k * pat + pat) % 6) + 1] IN
    [v |-> VA[vi], t |-> Ticks(VA[vi]), rest |-> c = <<>>, notes |-> c, bpm |-> IF withBpm /\ c # <<>> /\ k = 2 THEN 90 ELSE 0]
BarOf(m, f, ch, pat, withBpm) == [key |-> <<"C">>, meter |-> m, entries |-> [k \in 1..Len(f) |-> EntryOf(f[k], ch, k, pat, withBpm)]]
\* which voices carry which instrument: a MIDI instrument on voice 2 only; on voice 1 only (the voices after it have none); on voice 1
\* followed by a piano (an instrument that is no MIDI instrument); on every voice (different programs); a piano first; none at all; the same program on every voice
NoI == [kind |-> "none", nr |-> 0]
InstrOf(ip, v, nr) == CASE ip = 0 -> (IF v = 2 THEN [kind |-> "midi", nr |-> nr] ELSE NoI)
                        [] ip = 1 -> (IF v = 1 THEN [kind |-> "midi", nr |-> nr] ELSE NoI)
                        [] ip = 2 -> (IF v = 1 THEN [kind |-> "midi", nr |-> nr] ELSE IF v = 2 THEN [kind |-> "piano", nr |-> 0] ELSE NoI)
                        [] ip = 3 -> [kind |-> "midi", nr |-> (nr + 7 * (v - 1)) % 128]
                        [] ip = 4 -> (IF v = 1 THEN [kind |-> "piano", nr |-> 0] ELSE [kind |-> "midi", nr |-> nr])
                        [] ip = 5 -> NoI                                   \* no voice has an instrument: every track announces program 1
                        [] OTHER -> [kind |-> "midi", nr |-> nr]           \* every voice the SAME program (with a shared channel: the same change twice)
Init == /\ \E nv \in 1..MaxVoices, nb \in 1..MaxBars, bpm \in {120, 60, 200}, same \in BOOLEAN, nr \in {0, 33, 127, 6}, ip \in 0..6 : \E ms \in [1..nb -> {<<4,4>>, <<3,4>>, <<6,8>>, <<2,2>>, <<8,8>>}] :
             prog = [bpm |-> bpm, repeat |-> 0, nv |-> nv, meters |-> ms, same |-> same, fills |-> <<>>,
                     tracks |-> [v \in 1..nv |-> [name |-> <<86, 48 + v>>, instr |-> InstrOf(ip, v, nr), bars |-> <<>>]]]
        /\ cell = <<1, 1>> /\ done = FALSE
\* with `same`, every voice repeats the rhythm of voice 1 (equal rhythms); otherwise rhythms are chosen independently
Next == /\ ~done
        /\ LET v == cell[1] b == cell[2] m == prog.meters[b] IN
           \E f \in (IF prog.same /\ v > 1 THEN {prog.fills[b]} ELSE FillsOf(m)), pat \in 1..5, wb \in BOOLEAN :
              /\ prog' = [prog EXCEPT !.tracks[v].bars = Append(@, BarOf(m, f, v - 1, pat, wb /\ v = 1)),
                                       !.fills = IF v = 1 THEN Append(@, f) ELSE @]
              /\ IF b < Len(prog.meters) THEN cell' = <<v, b + 1>> /\ done' = FALSE
                 ELSE IF v < prog.nv THEN cell' = <<v + 1, 1>> /\ done' = FALSE
                 ELSE cell' = cell /\ done' = TRUE
Emit == done /\ cell # <<0, 0>> /\ cell' = <<0, 0>> /\ UNCHANGED <<prog, done>> /\ PrintT("@@" \o ToJson(prog))
Spec == Init /\ [][Next \/ Emit]_<<prog, cell, done>>
=============================================================================
