SPECIFICATION Spec
POSTCONDITION Consumed
