SPECIFICATION Spec
POSTCONDITION Consumed
