SPECIFICATION Spec
CONSTANTS K = 7
 KP = 4
INVARIANT RefSatisfiesLaws
INVARIANT Theorems
