------------------------------ MODULE MC_C02 ------------------------------
(* Call machine for intervals: Reference |= Laws (C02, C03) + theorems.     *)
EXTENDS Intervals, TLC
CONSTANTS K, KP
VARIABLE call
Init == call = [op |-> "init"]
Unmixed(k) == {n \in Names(k) : ~Mixed(n)}
Next == call.op = "init" /\
  \/ \E c \in CtorNames, n \in Names(K) : call' = [op |-> "ctor", c |-> c, n |-> n, r |-> RefCtor(c, n)]
  \/ \E a \in Names(KP), b \in Names(KP) : call' = [op |-> "pair", a |-> a, b |-> b]
  \/ \E a \in N35, b \in N35 : call' = [op |-> "name", a |-> a, b |-> b]
  \/ \E n \in N35, sh \in Shorthands, up \in BOOLEAN : call' = [op |-> "sh", n |-> n, sh |-> sh, up |-> up, r |-> RefFromSh(n, sh, up)]
Spec == Init /\ [][Next]_call

RefSatisfiesLaws ==
  CASE call.op = "ctor" ->
         /\ LawCtorCore(call.c, call.n, call.r)
         /\ (Ctor(call.c)[1] > 1 => LawCtorSpelling(call.r))
         \* the lawful answer is unique up to the tie at six accidentals
         /\ (Ctor(call.c)[1] > 1 => \A k \in -6..6 : LET x == Spell(Letter(call.r), k) IN
                 (LawCtorCore(call.c, call.n, x) => (x = call.r \/ (k = 6 /\ Net(call.r) = -6))))
    [] call.op = "sh" -> LawFromSh(call.n, call.sh, call.up, call.r)
    [] OTHER -> TRUE
Theorems ==
  CASE call.op = "pair" ->
         /\ Measure(call.a, call.b) \in 0..11
         /\ Mod12(Measure(call.a, call.b) + Measure(call.b, call.a)) = 0
         /\ (Consonant(call.a, call.b, TRUE) <=> Measure(call.a, call.b) \in {0, 3, 4, 5, 7, 8, 9})
         /\ (Consonant(call.a, call.b, FALSE) <=> Measure(call.a, call.b) \in {0, 3, 4, 7, 8, 9})
    [] call.op = "name" ->
         InNamingDomain(call.a, call.b) =>
           \* the shorthand name, applied upward, reproduces the second note exactly
           /\ RefFromSh(call.a, ShortName(call.a, call.b), TRUE) = call.b
           /\ ShSize(ShortName(call.a, call.b)) = Dist(call.a, call.b)
    [] call.op = "sh" ->
         \* up followed by down returns the starting name
         call.up => RefFromSh(call.r, call.sh, FALSE) = call.n
    [] OTHER -> TRUE
=============================================================================
