SPECIFICATION Spec
POSTCONDITION Consumed
