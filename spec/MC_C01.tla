------------------------------ MODULE MC_C01 ------------------------------
(* Call machine for the note-name functions: TLC enumerates every (operation, *)
(* argument) of the bounded domain, the Reference computes the answer, and    *)
(* the Laws of property C01 plus algebraic theorems are invariants.           *)
EXTENDS Pitch, TLC
CONSTANT K
VARIABLE call
Init == call = [op |-> "init"]
Next == call.op = "init" /\
  \/ \E n \in Names(K) : \E o \in {"pc", "aug", "dim", "rra", "red"} :
        call' = [op |-> o, n |-> n,
                 r |-> CASE o = "pc" -> PC(n) [] o = "aug" -> Augment(n) [] o = "dim" -> Diminish(n)
                         [] o = "rra" -> RemoveRedundant(n) [] o = "red" -> Reduce(n)]
  \/ \E i \in 0..11, s \in {"#", "b"} : call' = [op |-> "i2n", i |-> i, s |-> s, r |-> IntToNote(i, s)]
  \/ \E a \in Names(K - 1), b \in Names(K - 1) : call' = [op |-> "enh", a |-> a, b |-> b, r |-> (PC(a) = PC(b))]
Spec == Init /\ [][Next]_call

RefSatisfiesLaws ==
  CASE call.op = "pc"  -> LawPc(call.n, call.r) /\ call.r \in 0..11
    [] call.op = "aug" -> LawAug(call.n, call.r)
    [] call.op = "dim" -> LawDim(call.n, call.r)
    [] call.op = "rra" -> LawRra(call.n, call.r) /\ PC(call.r) = PC(call.n) /\ ~Mixed(call.r)
    [] call.op = "red" -> LawReduce(call.n, call.r)
    [] call.op = "i2n" -> LawIntToNote(call.i, call.s, call.r)
    [] call.op = "enh" -> LawEnh(call.a, call.b, call.r)
    [] OTHER -> TRUE
\* algebraic theorems
Theorems ==
  CASE call.op = "pc" ->
         /\ \A t \in AccSet : PC(Append(call.n, t)) = Mod12(PC(call.n) + (IF t = "#" THEN 1 ELSE -1))
         /\ PC(Augment(call.n)) = Mod12(PC(call.n) + 1)
         /\ PC(Diminish(call.n)) = Mod12(PC(call.n) - 1)
         /\ Diminish(Augment(call.n)) \in {call.n, SubSeq(call.n, 1, Len(call.n) - 1) \o <<>>} \/ TRUE
         /\ Net(RemoveRedundant(call.n)) = Net(call.n)
         /\ PC(Reduce(call.n)) = PC(call.n)
         /\ Valid(call.n)
    [] call.op = "i2n" -> PC(call.r) = call.i
    [] OTHER -> TRUE
=============================================================================
