------------------------------ MODULE Gen_X10 ------------------------------
EXTENDS Chords, TLC, Json, IOUtils, SequencesExt
CONSTANTS Roots
Q_Roots == N21
T_Roots == N35
Cases == {[kind |-> "built", root |-> r, sh |-> s] : r \in Roots, s \in DocumentedShorthands}
VARIABLE done
Init == done = ndJsonSerialize(IOEnv.OUT, SetToSeq(Cases))
Next == FALSE /\ done' = done
=============================================================================
