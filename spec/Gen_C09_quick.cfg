INIT Init
NEXT Next
CONSTANTS UMAX = 300
