SPECIFICATION Spec
CONSTANTS MaxLen = 3
 Emit = TRUE
