------------------------------ MODULE Gen_C07 ------------------------------
EXTENDS Chords, TLC, Json, IOUtils, SequencesExt
CONSTANTS RootSet, WithTriples
Roots == IF RootSet = "N21" THEN N21 ELSE N35
Shs == DocumentedShorthands \ {"5"}
ChordCases == {[kind |-> "chord", sh |-> s, root |-> r, k |-> k,
                base |-> RefChord(Meaning(s), r), chord |-> Rotate(RefChord(Meaning(s), r), k)] :
                  s \in Shs, r \in Roots, k \in 0..6}
\* chords of the formula table that no documented shorthand builds (theory chords): shape / acceptance clauses only
TheoryCases == {[kind |-> "theory", chord |-> Rotate(RefChord(m, r), k)] : m \in {"major eleventh"}, r \in N21, k \in 0..5}
Cases == TheoryCases \cup {c \in ChordCases : c.k <= Len(Formula(Meaning(c.sh)))} \cup
         (IF WithTriples THEN {[kind |-> "triple", chord |-> <<a, b, c>>] : a \in N21, b \in N21, c \in N21} ELSE {}) \cup
         {[kind |-> "small", chord |-> ch] : ch \in {<<>>} \cup {<<a>> : a \in N21} \cup {<<a, b>> : a \in N21, b \in N21}}
VARIABLE done
Init == done = ndJsonSerialize(IOEnv.OUT, SetToSeq(Cases))
Next == FALSE /\ done' = done
=============================================================================
