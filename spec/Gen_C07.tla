------------------------------ MODULE Gen_C07 ------------------------------
EXTENDS Chords, TLC, Json, IOUtils, SequencesExt
CONSTANTS RootSet, WithTriples
\* quick: all roots with at most one accidental and four of the fourteen double-accidental roots; thorough: all 35
Roots == IF RootSet = "N21" THEN N21 \cup {<<"B","#","#">>, <<"C","b","b">>, <<"G","#","#">>, <<"F","b","b">>} ELSE N35
Shs == DocumentedShorthands \ {"5"}
ChordCases == {[kind |-> "chord", sh |-> s, root |-> r, k |-> k,
                base |-> RefChord(Meaning(s), r), chord |-> Rotate(RefChord(Meaning(s), r), k)] :
                  s \in Shs, r \in Roots, k \in 0..6}
\* chords of the formula table that no documented shorthand builds (theory chords): shape / acceptance clauses only
TheoryCases == {[kind |-> "theory", chord |-> Rotate(RefChord(m, r), k)] : m \in {"major eleventh"}, r \in N21, k \in 0..5}
\* extended chords: every chord of five or more notes with one further note inserted at any position (stacks of thirds with the
\* missing member put back, clusters), in every rotation: shape / no-raise / acceptance clauses only
Big == {s \in Shs : Len(Formula(Meaning(s))) >= 4}
InsAt(ch, i, x) == SubSeq(ch, 1, i) \o <<x>> \o SubSeq(ch, i + 1, Len(ch))
ExtRoots == {<<"C">>, <<"F", "#">>, <<"B", "b">>}
ExtendedCases == {[kind |-> "extended", chord |-> LET b == RefChord(Meaning(s), r) IN Rotate(InsAt(b, IF i <= Len(b) THEN i ELSE Len(b), x), k)] :
                    s \in Big, r \in ExtRoots, x \in N21, i \in 3..6, k \in 0..7}
Cases == TheoryCases \cup {c \in ExtendedCases : \A j \in 1..Len(c.chord) : \A j2 \in 1..Len(c.chord) : j # j2 => c.chord[j] # c.chord[j2]} \cup {c \in ChordCases : c.k <= Len(Formula(Meaning(c.sh)))} \cup
         (IF WithTriples THEN {[kind |-> "triple", chord |-> <<a, b, c>>] : a \in N21, b \in N21, c \in N21} ELSE {}) \cup
         {[kind |-> "small", chord |-> ch] : ch \in {<<>>} \cup {<<a>> : a \in N21} \cup {<<a, b>> : a \in N21, b \in N21}}
VARIABLE done
Init == done = ndJsonSerialize(IOEnv.OUT, SetToSeq(Cases))
Next == FALSE /\ done' = done
=============================================================================
