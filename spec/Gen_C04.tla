------------------------------ MODULE Gen_C04 ------------------------------
EXTENDS Keys, TLC, Json, IOUtils, SequencesExt
CONSTANTS M, KN
Alphabet == {"A","B","C","D","E","F","G","a","b","c","d","e","f","g","H","#","x","%"}
Strings(m) == UNION {[1..j -> Alphabet] : j \in 1..m}
Cases == {[kind |-> "key", k |-> k] : k \in AllKeys \cup Strings(M) \cup {<<>>} \cup {k0 \o <<w>> : k0 \in AllKeys, w \in {"\n", " "}} \cup {<<w>> \o k0 : k0 \in {<<"C">>, <<"a">>}, w \in {"\n", " "}}} \cup      \* the empty string is a string too
         {[kind |-> "sig", i |-> i] : i \in -12..12} \cup
         {[kind |-> "after", k1 |-> k1, k2s |-> SetToSeq(AllKeys)] : k1 \in AllKeys} \cup
         {[kind |-> "step", k |-> k, n |-> n] : k \in AllKeys, n \in Names(KN)}
VARIABLE done
Init == done = ndJsonSerialize(IOEnv.OUT, SetToSeq(Cases))
Next == FALSE /\ done' = done
=============================================================================
