INIT Sys19Init
NEXT SysNext
CONSTANTS D = 0
 MaxTracks = 1
 MaxBars = 1
 MaxEntries = 6
 Mode = "sys"
