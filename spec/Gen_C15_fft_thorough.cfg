SPECIFICATION FSpec
CONSTANTS D = 4
 Mode = "none"
