INIT Init
NEXT Next
CONSTANTS RootSet = "N35"
 WithTriples = TRUE
