------------------------------- MODULE Notation -------------------------------
(* Notation exports (property C19).                                             *)
(* LilyPond: the harness lexes the text into tokens; the GRAMMAR of the subset   *)
(* and its MEANING are defined here (a one-pass automaton over the tokens).      *)
(* MusicXML: the harness parses the XML into nested records; the relations the   *)
(* tree must satisfy are defined here.                                           *)
EXTENDS MidiSem, SequencesExt

\* ---- LilyPond tokens: [k, ...]:
\*   lbrace, rbrace, lchord, rchord(dur), time(a,b), key(l, acc, mode), times(a,b), note(l, acc, oct, dur), rest(dur), header(...)
\* dur = [has, base (0 longa, 1 breve, 2 whole ... 9 128th; -1 unknown), dots]
NoBar == [open |-> FALSE, key |-> <<>>, time |-> <<0, 0>>, entries |-> <<>>]
LyInit == [d |-> 0, ratio |-> <<1, 1>>, tupd |-> 0, pend |-> <<0, 0>>, cur |-> NoBar, bars |-> <<>>, tracks |-> <<>>,
           inch |-> FALSE, ch |-> <<>>, err |-> "", header |-> [title |-> "", composer |-> "", opus |-> "", present |-> FALSE]]
LyPitch(tok) == [l |-> tok.l, acc |-> tok.acc, oct |-> tok.oct]
LyEntry(st, content, dur) == [c |-> content, base |-> dur.base, dots |-> dur.dots, has |-> dur.has, ratio |-> st.ratio]
\* one step of the reader; bd = brace depth at which bars live (1 for a lone bar, 2 inside a track)
LyStep(bd, st, tok) ==
  IF st.err # "" THEN st
  ELSE CASE tok.k = "header" -> [st EXCEPT !.header = [title |-> tok.title, composer |-> tok.composer, opus |-> tok.opus, present |-> TRUE]]
    [] tok.k = "lbrace" ->
         LET d1 == st.d + 1 IN
         IF st.pend # <<0, 0>> THEN [st EXCEPT !.d = d1, !.ratio = st.pend, !.tupd = d1, !.pend = <<0, 0>>]
         ELSE IF d1 = bd THEN [st EXCEPT !.d = d1, !.cur = [NoBar EXCEPT !.open = TRUE]]
         ELSE [st EXCEPT !.d = d1]
    [] tok.k = "rbrace" ->
         IF st.d = 0 THEN [st EXCEPT !.err = "unbalanced-braces"]
         ELSE IF st.tupd = st.d /\ st.tupd # 0 THEN [st EXCEPT !.d = st.d - 1, !.ratio = <<1, 1>>, !.tupd = 0]
         ELSE IF st.d = bd THEN [st EXCEPT !.d = st.d - 1, !.bars = Append(@, st.cur), !.cur = NoBar]
         ELSE IF st.d = bd - 1 THEN [st EXCEPT !.d = st.d - 1, !.tracks = Append(@, st.bars), !.bars = <<>>]
         ELSE [st EXCEPT !.d = st.d - 1]
    [] tok.k = "time" -> IF st.cur.open THEN [st EXCEPT !.cur.time = <<tok.a, tok.b>>] ELSE [st EXCEPT !.err = "time-outside-bar"]
    [] tok.k = "key" -> IF st.cur.open THEN [st EXCEPT !.cur.key = <<tok.l, tok.acc, tok.mode>>] ELSE [st EXCEPT !.err = "key-outside-bar"]
    [] tok.k = "times" -> [st EXCEPT !.pend = <<tok.b, tok.a>>]        \* \times 2/3 = three in the time of two = ratio 3:2
    [] tok.k = "lchord" -> [st EXCEPT !.inch = TRUE, !.ch = <<>>]
    [] tok.k = "rchord" -> IF ~st.cur.open THEN [st EXCEPT !.err = "music-outside-bar"]
                           ELSE [st EXCEPT !.inch = FALSE, !.cur.entries = Append(@, LyEntry(st, st.ch, tok.dur)), !.ch = <<>>]
    [] tok.k = "note" -> IF st.inch THEN [st EXCEPT !.ch = Append(@, LyPitch(tok))]
                         ELSE IF ~st.cur.open THEN [st EXCEPT !.err = "music-outside-bar"]
                         ELSE [st EXCEPT !.cur.entries = Append(@, LyEntry(st, <<LyPitch(tok)>>, tok.dur))]
    [] tok.k = "rest" -> IF ~st.cur.open THEN [st EXCEPT !.err = "music-outside-bar"]
                         ELSE [st EXCEPT !.cur.entries = Append(@, LyEntry(st, <<>>, tok.dur))]
    [] OTHER -> [st EXCEPT !.err = "unknown-token"]
LyRead(tokens, bd) == LET F(st, tok) == LyStep(bd, st, tok) IN FoldLeft(F, LyInit, tokens)

\* ---- what the written program says, in the reader's vocabulary
LowerOf(c) == Lower(c)
PitchOf(x) == [l |-> LowerOf(x.n[1]), acc |-> Net(x.n), oct |-> x.o]
WEntry(e) == [c |-> IF e.rest THEN <<>> ELSE [i \in 1..Len(e.notes) |-> PitchOf(e.notes[i])],
              base |-> e.v.b, dots |-> e.v.d, has |-> TRUE, ratio |-> <<e.v.r[1], e.v.r[2]>>]
KeyTriple(k) == <<LowerOf(Upper(k[1])), (IF Len(k) = 1 THEN 0 ELSE IF k[2] = "#" THEN Len(k) - 1 ELSE 1 - Len(k)), IF IsMinor(k) THEN "minor" ELSE "major">>
\* effective key / time of bar i of a decoded track: the last one shown at or before i (initial context C major, 4/4)
RECURSIVE EffKey(_, _)
EffKey(bars, i) == IF i = 0 THEN <<"c", 0, "major">> ELSE IF bars[i].key # <<>> THEN bars[i].key ELSE EffKey(bars, i - 1)
RECURSIVE EffTime(_, _)
EffTime(bars, i) == IF i = 0 THEN <<4, 4>> ELSE IF bars[i].time # <<0, 0>> THEN bars[i].time ELSE EffTime(bars, i - 1)
LyTrackClause(wbars, dbars, standalone) ==
    IF Len(dbars) # Len(wbars) THEN "ly-bars"
    ELSE IF \E i \in 1..Len(wbars) : Len(dbars[i].entries) # Len(wbars[i].entries) THEN "ly-entries-in-order"
    ELSE IF \E i \in 1..Len(wbars) : \E j \in 1..Len(wbars[i].entries) : dbars[i].entries[j].c # WEntry(wbars[i].entries[j]).c THEN "ly-pitches-chords-rests"
    ELSE IF \E i \in 1..Len(wbars) : \E j \in 1..Len(wbars[i].entries) :
               LET d == dbars[i].entries[j] w == WEntry(wbars[i].entries[j]) IN ~d.has \/ d.base # w.base \/ d.dots # w.dots THEN "ly-value-base-and-dots"
    ELSE IF \E i \in 1..Len(wbars) : \E j \in 1..Len(wbars[i].entries) : dbars[i].entries[j].ratio # WEntry(wbars[i].entries[j]).ratio THEN "ly-tuplet-ratio"
    ELSE IF standalone /\ \E i \in 1..Len(wbars) : dbars[i].key = <<>> \/ dbars[i].time = <<0, 0>> THEN "ly-key-and-time-shown"
    ELSE IF \E i \in 1..Len(wbars) : EffKey(dbars, i) # KeyTriple(wbars[i].key) THEN "ly-key"
    ELSE IF \E i \in 1..Len(wbars) : EffTime(dbars, i) # <<wbars[i].meter[1], wbars[i].meter[2]>> THEN "ly-time-signature"
    ELSE "ok"

\* ---- MusicXML relations
XmlNotesOf(e) == IF e.rest THEN <<[rest |-> TRUE, step |-> "", alter |-> 0, octave |-> 0, chord |-> FALSE]>>
                 ELSE [i \in 1..Len(e.notes) |-> [rest |-> FALSE, step |-> e.notes[i].n[1], alter |-> Net(e.notes[i].n), octave |-> e.notes[i].o, chord |-> i > 1]]
XmlMeasureClause(wb, m, number) ==
    LET exp == LET F(acc, e) == acc \o [i \in 1..Len(XmlNotesOf(e)) |-> [n |-> XmlNotesOf(e)[i], dots |-> e.v.d, t |-> e.t, plain |-> (4 * L) \div Pow2(e.v.b)]] IN FoldLeft(F, <<>>, wb.entries) IN
    IF m.number # number THEN "xml-measure-numbers"
    ELSE IF <<m.beats, m.beattype>> # <<wb.meter[1], wb.meter[2]>> THEN "xml-meter"
    ELSE IF m.fifths # Sig(wb.key) \/ m.mode # (IF IsMinor(wb.key) THEN "minor" ELSE "major") THEN "xml-key-signature-and-mode"
    ELSE IF Len(m.notes) # Len(exp) THEN "xml-one-note-element-per-note-or-rest"
    ELSE IF \E i \in 1..Len(exp) : m.notes[i].rest # exp[i].n.rest \/ (~exp[i].n.rest /\ <<m.notes[i].step, m.notes[i].alter, m.notes[i].octave>> # <<exp[i].n.step, exp[i].n.alter, exp[i].n.octave>>)
         THEN "xml-pitch"
    ELSE IF \E i \in 1..Len(exp) : m.notes[i].chord # exp[i].n.chord THEN "xml-chord-membership"
    ELSE IF \E i \in 1..Len(exp) : m.notes[i].dots # exp[i].dots THEN "xml-dots"
    ELSE IF \E i \in 1..Len(exp) : m.notes[i].duration * (L \div 4) # exp[i].t * m.divisions THEN
            \* is it exactly the deviation "duration of the plain (undotted, non-tuplet) base value"?
            (IF \A i \in 1..Len(exp) : m.notes[i].duration * (L \div 4) = exp[i].t * m.divisions
                                         \/ (exp[i].plain # exp[i].t /\ m.notes[i].duration * (L \div 4) = exp[i].plain * m.divisions)
             THEN "xml-duration-ignores-dots-and-tuplets" ELSE "xml-duration-over-divisions")
    ELSE "ok"
=============================================================================
