------------------------------ MODULE MC_C16 ------------------------------
(* Theorems about the MIDI semantics: the VLQ encoder is inverted by the       *)
(* decoder and is minimal; what a program denotes never hangs or overlaps.     *)
EXTENDS MidiSem, Smf, TLC
VARIABLE call
Init == call = [op |-> "init"]
Boundary == UNION {{p + d : d \in -3..3} : p \in {128, 16384, 2097152}} \cup {0, 1, 268435455, 268435454}
Q == [b |-> 4, d |-> 0, r |-> <<1,1>>]
E8 == [b |-> 5, d |-> 0, r |-> <<3,2>>]
Nt(ch) == [n |-> <<"C">>, o |-> 4, ch |-> ch, vel |-> 64]
Ents == {<<>>, <<[t |-> Ticks(Q), rest |-> TRUE, notes |-> <<>>]>>, <<[t |-> Ticks(Q), rest |-> FALSE, notes |-> <<Nt(1)>>]>>,
         <<[t |-> Ticks(E8), rest |-> FALSE, notes |-> <<Nt(1), Nt(2)>>], [t |-> Ticks(E8), rest |-> TRUE, notes |-> <<>>], [t |-> Ticks(Q), rest |-> FALSE, notes |-> <<Nt(1)>>]>>}
Next == call.op = "init" /\
  \/ \E n \in Boundary \cup 0..3000 : call' = [op |-> "vlq", n |-> n]
  \/ \E e1 \in Ents, e2 \in Ents, rep \in 0..2 : call' = [op |-> "prog", rep |-> rep,
         tr |-> [bars |-> <<[key |-> <<"C">>, meter |-> <<4,4>>, entries |-> e1], [key |-> <<"e","b">>, meter |-> <<3,4>>, entries |-> e2]>>]]
Spec == Init /\ [][Next]_call
IsMeter(e) == e.k = "meter"
Theorems ==
  CASE call.op = "vlq" -> /\ VlqDecode(Vlq(call.n)) = call.n /\ VlqWellFormed(Vlq(call.n))
                          /\ VlqAt(Vlq(call.n), 1) = <<call.n, Len(Vlq(call.n))>>            \* the reader inverts the writer
                          /\ (call.n >= 128 => Vlq(call.n)[1] # 128)                             \* minimal: no leading zero group
    [] call.op = "prog" -> /\ Paired(ExpectedTrack(call.tr, call.rep), {})
                           /\ Len(Filter(ExpectedTrack(call.tr, call.rep), IsMeter)) = 2 * (call.rep + 1)
    [] OTHER -> TRUE

=============================================================================
