INIT Init
NEXT Next
CONSTANTS NMAX = 2
 KT = 2
 SUBSIZES = {1, 7}
