SPECIFICATION Spec
POSTCONDITION Consumed
