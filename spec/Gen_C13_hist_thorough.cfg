SPECIFICATION Spec
CONSTANTS Mode = "hist"
 D = 3
 ValueSet = "small"
 MeterSet = "large"
