SPECIFICATION Spec
CONSTANTS Mode = "mc"
 D = 3
INVARIANT InvBars
INVARIANT InvAllButLastFull
PROPERTY PropRefused
PROPERTY PropNewBar
