SPECIFICATION GSpec
CONSTANTS MaxLen = 5
 Emit = FALSE
 Mode = "hist"
 D = 3
