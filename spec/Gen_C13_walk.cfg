SPECIFICATION Spec
CONSTANTS Mode = "walk"
 D = 40
 ValueSet = "full"
 MeterSet = "large"
