INIT Init
NEXT Next
CONSTANTS K = 6
 KP = 3
 M = 3
