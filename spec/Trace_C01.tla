----------------------------- MODULE Trace_C01 -----------------------------
(* Trace validation for property C01: every record is one call of the real   *)
(* library; Clause(e) names the first clause of the property the observed     *)
(* result breaks ("ok" when none).                                            *)
EXTENDS Pitch, TLC, Json, IOUtils
Trace == ndJsonDeserialize(IOEnv.TRACE)
VARIABLES l, bad, nbad

FormatErr == "NoteFormatError"
Raised(e, cls) == ~e.ok /\ e.err = cls

Clause(e) ==
  CASE e.op = "note_to_int" ->
         IF Valid(e.in.n) THEN (IF e.ok /\ LawPc(e.in.n, e.out) THEN "ok" ELSE "pitch-class")
         ELSE (IF Raised(e, FormatErr) THEN "ok" ELSE "reject-malformed")
    [] e.op = "is_valid_note" ->
         IF e.ok /\ e.out = Valid(e.in.n) THEN "ok" ELSE "validity-predicate"
    [] e.op = "reduce_accidentals" ->
         IF Valid(e.in.n) THEN (IF e.ok /\ LawReduce(e.in.n, e.out) THEN "ok" ELSE "reduce")
         ELSE (IF Raised(e, FormatErr) THEN "ok" ELSE "reject-malformed")
    [] e.op = "remove_redundant_accidentals" ->
         IF e.ok /\ LawRra(e.in.n, e.out) THEN "ok" ELSE "remove-redundant"
    [] e.op = "augment" -> IF e.ok /\ LawAug(e.in.n, e.out) THEN "ok" ELSE "augment"
    [] e.op = "diminish" -> IF e.ok /\ LawDim(e.in.n, e.out) THEN "ok" ELSE "diminish"
    [] e.op = "is_enharmonic" -> IF e.ok /\ LawEnh(e.in.a, e.in.b, e.out) THEN "ok" ELSE "enharmonic"
    [] e.op = "int_to_note" ->
         IF e.in.i \in 0..11 /\ e.in.style \in {<<"#">>, <<"b">>}
         THEN (IF e.ok /\ LawIntToNote(e.in.i, e.in.style[1], e.out) THEN "ok" ELSE "int-to-name")
         ELSE IF e.in.i \notin 0..11 /\ e.in.style \in {<<"#">>, <<"b">>}
              THEN (IF Raised(e, "RangeError") THEN "ok" ELSE "reject-range")
         ELSE IF e.in.i \in 0..11
              THEN (IF Raised(e, "FormatError") THEN "ok" ELSE "reject-style")
         ELSE (IF Raised(e, "RangeError") \/ Raised(e, "FormatError") THEN "ok" ELSE "reject-range")
    [] e.op = "roundtrip" ->      \* note_to_int(int_to_note(i, style))
         IF e.ok /\ e.out = e.in.i THEN "ok" ELSE "int-name-int"
    [] e.op = "step" ->           \* note_to_int(n) and note_to_int(n \o <<t>>) on the code
         IF e.ok /\ e.out[2] = Mod12(e.out[1] + (IF e.in.t = "#" THEN 1 ELSE -1)) THEN "ok" ELSE "one-token-step"
    [] OTHER -> "unknown-op"

W == INSTANCE Walk
Spec == W!Spec
Consumed == W!Consumed
=============================================================================
