------------------------------- MODULE MC_X04 -------------------------------
(* The call machine explored by TLC: invariants of every reachable writer state *)
(* and the generator of call scripts.                                            *)
EXTENDS MidiTrackCalls, TLC, Json
CONSTANTS MaxLen, Emitting
VARIABLES w, hist
Nt(n, o, ch, vel) == [n |-> n, o |-> o, ch |-> ch, vel |-> vel]

E4 == Nt(<<"E">>, 4, 0, 90)
G3 == Nt(<<"G">>, 3, 2, 64)
A0(op) == [op |-> op, n |-> 0, notes |-> <<>>, ch |-> 0, instr |-> 0, bank |-> 0, bpm |-> 0, meter |-> <<4, 4>>, key |-> <<"C">>, txt |-> <<>>, entries |-> <<>>]
Ent(v, rest, notes, bpm) == [t |-> L \div v, v |-> v, rest |-> rest, notes |-> notes, bpm |-> bpm]
Calls == {[A0("set_deltatime") EXCEPT !.n = d] : d \in {0, 1, 72, 127, 128, 20000}} \cup
         {[A0("play_Note") EXCEPT !.notes = <<x>>] : x \in {C4, G3}} \cup
         {[A0("stop_Note") EXCEPT !.notes = <<x>>] : x \in {C4, G3}} \cup
         {[A0("play_NoteContainer") EXCEPT !.notes = ns] : ns \in {<<>>, <<C4>>, <<G3, C4, E4>>}} \cup
         {[A0("stop_NoteContainer") EXCEPT !.notes = ns] : ns \in {<<C4>>, <<G3, C4, E4>>}} \cup
         {[A0("set_instrument") EXCEPT !.ch = 2, !.instr = 40, !.bank = b] : b \in {0, 1}} \cup
         {[A0("arm_instrument") EXCEPT !.instr = 25]} \cup
         {[A0("set_tempo") EXCEPT !.bpm = 90]} \cup
         {[A0("set_meter") EXCEPT !.meter = <<6, 8>>]} \cup
         {[A0("set_key") EXCEPT !.key = k] : k \in {<<"E", "b">>, <<"f", "#">>}} \cup
         {[A0("set_track_name") EXCEPT !.txt = <<72, 105>>]} \cup
         {A0("reset")} \cup
         {[A0("play_Bar") EXCEPT !.entries = es] : es \in {<<>>, <<Ent(4, TRUE, <<>>, 0)>>, <<Ent(4, FALSE, <<C4>>, 0), Ent(8, TRUE, <<>>, 0), Ent(8, FALSE, <<G3, E4>>, 150)>>}}
Init == w = Start(120) /\ hist = <<[A0("new") EXCEPT !.bpm = 120]>>
Step == Len(hist) < MaxLen /\ \E a \in Calls : w' = Call(w, a) /\ hist' = Append(hist, a)
          /\ (Emitting /\ Len(hist') = MaxLen => PrintT("@@" \o ToJson([acts |-> hist'])))
Spec == Init /\ [][Step]_<<w, hist>>
\* ticks never go backwards within the emitted stream; the pending delta and delay are never negative
TicksMonotone == \A i \in 1..(Len(w.out) - 1) : w.out[i].tick <= w.out[i + 1].tick
NonNegative == w.delta >= 0 /\ w.delay >= 0 /\ w.tick >= 0
\* an event never consumes the pending delta: only set_deltatime, containers, instrument changes, bars and reset touch it
DeltaOnlyBySetters == [][w'.delta # w.delta => hist'[Len(hist')].op \in {"set_deltatime", "play_NoteContainer", "stop_NoteContainer", "set_instrument", "play_Bar", "reset", "play_Note"}]_<<w, hist>>
\* reset forgets the events but keeps the rest delay and the armed instrument
ResetKeeps == [][hist'[Len(hist')].op = "reset" => w'.out = <<>> /\ w'.delay = w.delay /\ w'.chg = w.chg /\ w'.instr = w.instr]_<<w, hist>>
=============================================================================
