SPECIFICATION Spec
CONSTANTS Mode = "hist"
 D = 2
 ValueSet = "small"
 MeterSet = "small"
