SPECIFICATION Spec
CONSTANTS D = 40
 Mode = "emit"
