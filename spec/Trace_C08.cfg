SPECIFICATION Spec
POSTCONDITION Consumed
