INIT Init
NEXT Next
CONSTANTS K = 8
 KP = 5
