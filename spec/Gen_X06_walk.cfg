SPECIFICATION Spec
CONSTANTS MaxLen = 9
 Emitting = TRUE
