------------------------------ MODULE MC_C09 ------------------------------
EXTENDS Value, TLC
VARIABLE call
Init == call = [op |-> "init"]
Next == call.op = "init" /\
  \/ \E v \in Vocabulary : call' = [op |-> "value", v |-> v]
  \/ \E a \in Vocabulary, b \in Vocabulary : call' = [op |-> "pair", a |-> a, b |-> b]
  \/ \E c \in -3..30, u \in -8..300 : call' = [op |-> "meter", c |-> c, u |-> <<u, 1>>]
Spec == Init /\ [][Next]_call
\* centres of the analyser's five classes relative to the next base value (per mille) and 1 % bands never overlap
Theorems ==
  CASE call.op = "value" ->
         /\ TicksExact(call.v) /\ Ticks(call.v) > 0
         \* the descriptor is determined by the length: no two vocabulary values have the same length
         /\ \A w \in Vocabulary : Ticks(w) = Ticks(call.v) => w = call.v
         \* 1 % bands of undotted / single-dotted values do not touch any other such value
         /\ (call.v.d <= 1 => \A w \in Vocabulary : (w.d <= 1 /\ w # call.v) =>
                 (Ticks(w) * 100 > Ticks(call.v) * 102 \/ Ticks(w) * 102 < Ticks(call.v) * 100))
    [] call.op = "pair" -> (Ticks(call.a) + Ticks(call.b)) - Ticks(call.b) = Ticks(call.a)
    [] call.op = "meter" ->
         /\ (Compound(call.c, call.u) => ValidMeter(call.c, call.u) /\ call.c >= 6)
         /\ (ValidMeter(call.c, call.u) <=> (call.c > 0 /\ call.u[1] \in {1, 2, 4, 8, 16, 32, 64, 128, 256}))
         /\ ~(Compound(call.c, call.u) /\ call.c = 3)
    [] OTHER -> TRUE
=============================================================================
