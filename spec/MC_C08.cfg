SPECIFICATION Spec
INVARIANT RefSatisfiesLaws
INVARIANT Theorems
