SPECIFICATION Spec
CONSTANTS D = 3
 Emitting = FALSE
INVARIANT LastIsFoundInv
