INIT Init
NEXT Next
CONSTANTS
 SlashRoots <- Q_SlashRoots
 AliasRoots <- Q_AliasRoots
 PolyShorthands <- Q_PolyShorthands
 PolyRoots <- Q_PolyRoots
