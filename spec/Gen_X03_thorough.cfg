SPECIFICATION Spec
CONSTANTS MaxLen = 4
 Emit = TRUE
