SPECIFICATION Spec
CONSTANTS D = 3
 Emitting = FALSE
INVARIANT InvOneEntry
INVARIANT InvOneTuning
INVARIANT ListedFit
PROPERTY DisplayKept
PROPERTY LastIsListed
