------------------------------- MODULE MC_X09 -------------------------------
EXTENDS GetInterval, TLC
VARIABLE call
Steps == -13..25
Init == call = [op |-> "init"]
Next == call.op = "init" /\ \E k \in MajorKeys, nt \in N35, n \in Steps : call' = [op |-> "get", key |-> k, note |-> nt, n |-> n]
Spec == Init /\ [][Next]_call
IsGet == call.op = "get"
\* the machine keeps the relative law and the spelling law on every input
ImplKeepsRel == IsGet => LawRel(call.note, call.n, call.key, Impl(call.note, call.n, call.key))
ImplSpelledOnKey == IsGet => LawSpelledOnKey(call.note, call.key, Impl(call.note, call.n, call.key))
\* it meets the documented law wherever the key leaves the letter of the note alone
ImplMeetsLawOnPlainLetters == (IsGet /\ ~KeyAltersLetter(call.key, call.note)) => Law(call.note, call.n, call.key, Impl(call.note, call.n, call.key))
\* and is off by exactly the key's accidental elsewhere
ImplOffByKeyAccidental == (IsGet /\ KeyAltersLetter(call.key, call.note)) =>
     LET r == Impl(call.note, call.n, call.key) IN PC(r) = Mod12(PC(call.note) + call.n + Net(OnLetter(call.key, call.note)))
\* REFUTED (required): the documented law on every input
ImplMeetsLaw == IsGet => Law(call.note, call.n, call.key, Impl(call.note, call.n, call.key))
\* the key's pitch classes are the key notes' pitch classes (so IdxOfPC is well defined)
KeyTable == \A k \in MajorKeys : /\ \A i \in 1..7 : PC(KeyNotes(k)[i]) = KeyPCs(k)[i]
                                 /\ \A i, j \in 1..7 : KeyPCs(k)[i] = KeyPCs(k)[j] => i = j
\* period 12 in the number of half notes
Periodic == IsGet /\ call.n + 12 \in Steps => Impl(call.note, call.n, call.key) = Impl(call.note, call.n + 12, call.key)
=============================================================================
