INIT Init
NEXT Next
CONSTANTS
 Roots <- Q_Roots
