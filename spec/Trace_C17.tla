----------------------------- MODULE Trace_C17 -----------------------------
(* C17: write with the real writer, read back with the real reader, compare    *)
(* what came back with what the program denotes (flattened normal form).       *)
EXTENDS MidiSem, TLC, Json, IOUtils
Trace == ndJsonDeserialize(IOEnv.TRACE)
VARIABLES l, bad, nbad
WrittenItems(tr) == LET F(acc, b) == acc \o [i \in 1..Len(b.entries) |->
                          FlatItem(EntryTicks(b.entries[i].t), IF b.entries[i].rest THEN <<>> ELSE b.entries[i].notes)] IN
                    FoldLeft(F, <<>>, tr.bars)
ReadItems(tr) == LET F(acc, b) == acc \o [i \in 1..Len(b.entries) |-> FlatItem(b.entries[i].mt, b.entries[i].notes)] IN
                 FoldLeft(F, <<>>, tr.bars)
RoundTrippable(p) == \A i \in 1..Len(p.tracks) : \A j \in 1..Len(p.tracks[i].bars) : \A k \in 1..Len(p.tracks[i].bars[j].entries) :
                        LET e == p.tracks[i].bars[j].entries[k] IN
                        /\ WholeTicks(e.t) /\ e.bpm = 0 /\ \A m \in 1..Len(e.notes) : e.notes[m].vel \in 1..127
OneMeterKey(tr) == tr.bars # <<>> /\ \A j \in 1..Len(tr.bars) : tr.bars[j].meter = tr.bars[1].meter /\ tr.bars[j].key = tr.bars[1].key
TrackClause(w, r) ==
    IF Flat(ReadItems(r)) # Flat(WrittenItems(w)) THEN "same-flattened-music"
    ELSE IF r.name # w.name THEN "track-name"
    ELSE IF w.instr.kind = "midi" /\ (\E x \in ToSet(WrittenItems(w)) : x.s # {}) /\ r.instr # w.instr.nr THEN "instrument-number"
    ELSE IF OneMeterKey(w) /\ \E j \in 1..Len(r.bars) : <<r.bars[j].meter[1], r.bars[j].meter[2]>> # <<w.bars[1].meter[1], w.bars[1].meter[2]>> THEN "meter"
    ELSE IF OneMeterKey(w) /\ \E j \in 1..Len(r.bars) : r.bars[j].key # w.bars[1].key THEN "key"
    ELSE "ok"
Clause(e) ==
  CASE e.op = "roundtrip" ->
         IF ~RoundTrippable(e.prog) THEN "ok"
         ELSE IF ~e.ok THEN "read-back-raised"
         ELSE IF Len(e.read.tracks) # Len(e.prog.tracks) THEN "same-number-of-tracks"
         ELSE IF \E i \in 1..Len(e.prog.tracks) : TrackClause(e.prog.tracks[i], e.read.tracks[i]) # "ok"
              THEN TrackClause(e.prog.tracks[CHOOSE i \in 1..Len(e.prog.tracks) : TrackClause(e.prog.tracks[i], e.read.tracks[i]) # "ok"],
                               e.read.tracks[CHOOSE i \in 1..Len(e.prog.tracks) : TrackClause(e.prog.tracks[i], e.read.tracks[i]) # "ok"])
         ELSE IF e.read.bpm # e.prog.bpm THEN "tempo" ELSE "ok"
    [] e.op = "rt_ticks" ->      \* one bar whose values are whole tick counts of any size (value = 288 / k): in.entries and read are sequences of [mt, notes]
         IF ~e.ok THEN "read-back-raised"
         ELSE IF Flat([i \in 1..Len(e.read) |-> FlatItem(e.read[i].mt, e.read[i].notes)]) # Flat([i \in 1..Len(e.in.entries) |-> FlatItem(e.in.entries[i].mt, e.in.entries[i].notes)])
              THEN "same-flattened-music" ELSE "ok"
    [] e.op = "bpm" -> IF e.ok /\ e.out = e.in.bpm THEN "ok" ELSE "tempo"
    [] e.op = "vlq_read" -> IF e.ok /\ e.out.value = e.in.n /\ e.out.consumed = Len(Vlq(e.in.n)) THEN "ok" ELSE "variable-length-reader-inverts-writer"
    [] e.op = "corrupt" -> IF ~e.ok /\ e.err # "hang" THEN "ok" ELSE "not-midi-accepted-as-music"
    [] e.op = "build" -> "ok"
    [] OTHER -> "unknown-op"
W == INSTANCE Walk
Spec == W!Spec
Consumed == W!Consumed
=============================================================================
