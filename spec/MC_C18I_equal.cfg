SPECIFICATION Spec
CONSTANT Equal = TRUE
INVARIANT ImplRefinesIdeal
INVARIANT SchedRefinesIdeal
