SPECIFICATION Spec
CONSTANT K = 8
INVARIANT RefSatisfiesLaws
INVARIANT Theorems
