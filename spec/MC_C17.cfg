SPECIFICATION Spec
INVARIANT Theorems
