SPECIFICATION Spec
CONSTANT ZeroDeltaAfterBank <- Never
INVARIANT Refines
