----------------------------- MODULE Trace_C13 -----------------------------
EXTENDS Bar, TLC, Json, IOUtils
Trace == ndJsonDeserialize(IOEnv.TRACE)
VARIABLES l, st, bad, nbad
V(x) == [b |-> x.b, d |-> x.d, r |-> x.r]
Items(xs) == [i \in 1..Len(xs) |-> [t |-> xs[i].t, n |-> xs[i].n, o |-> xs[i].o]]
Arg(a) == [rest |-> a.rest, items |-> Items(a.items)]
Notes(xs) == [i \in 1..Len(xs) |-> [n |-> xs[i].n, o |-> xs[i].o]]
Content(c) == IF c.rest THEN Rest ELSE Sounding(Notes(c.notes))
Near(r) == r <= Tol9 /\ r >= 0 - Tol9
\* observed state (ticks) and whether the float residues are within tolerance
ObsLen(o) == IF o.meter = <<0, 0>> THEN Unbounded ELSE o.len
ObsState(o) == [meter |-> <<o.meter[1], o.meter[2]>>, len |-> ObsLen(o),
                entries |-> [i \in 1..Len(o.entries) |-> [at |-> o.entries[i].at, t |-> o.entries[i].vt, c |-> Content(o.entries[i].c)]]]
ResiduesOk(o) == Near(o.lenRes) /\ Near(o.curRes) /\ Near(o.spaceRes)
                 /\ \A i \in 1..Len(o.entries) : Near(o.entries[i].atRes) /\ Near(o.entries[i].vtRes)
\* derived observations agree with the specification state
Derived(b, o) ==
    IF o.n # Len(b.entries) THEN "length"
    ELSE IF o.cur # Total(b.entries) THEN "current-beat-is-total"
    ELSE IF o.space # SpaceLeft(b) THEN "current-plus-space-is-length"
    ELSE IF o.full # IsFull(b) THEN (IF b.len = 0 /\ b.meter[1] = 0 THEN "bar-of-length-zero-with-entries-not-full" ELSE "is-full")
    ELSE IF ~ResiduesOk(o) THEN "float-drift"
    ELSE "ok"
Expected(s, line) ==
  CASE line.op = "place_notes" -> Place(s, V(line.in.v), Arg(line.in.arg))
    [] line.op = "place_rest" -> Place(s, V(line.in.v), [rest |-> TRUE, items |-> <<>>])
    [] line.op = "plus" -> Place(s, PlusValue(s), Arg(line.in.arg))
    [] line.op = "remove_last" -> RemoveLast(s)
    [] line.op = "set_item" -> SetItem(s, line.in.i, Arg(line.in.arg))
    [] line.op \in {"place_at", "place_at_obj"} -> PlaceAt(s, line.in.i, Arg(line.in.arg))
    [] line.op = "place_at_beat" ->      \* the beat is a position in whole notes (1 = one whole note after the start), not an index
         LET hit == {i \in 1..Len(s.entries) : s.entries[i].at = line.in.beat * L /\ ~s.entries[i].c.rest} IN
         IF hit = {} THEN s ELSE PlaceAt(s, CHOOSE i \in hit : TRUE, Arg(line.in.arg))
    [] line.op = "set_meter" -> SetMeter(s, line.in.count, line.in.unit)
Clause(s, line) ==
  CASE line.op = "new" ->
         IF line.ok /\ ObsState(line.obs) = NewBar(<<line.in.meter[1], line.in.meter[2]>>) THEN Derived(NewBar(<<line.in.meter[1], line.in.meter[2]>>), line.obs)
         ELSE "new-bar"
    [] line.op \in {"place_notes", "place_rest", "plus"} ->
         LET exp == Expected(s, line) accepted == exp # s obs == ObsState(line.obs) IN
         IF ~line.ok THEN "operation-raised"
         ELSE IF line.ret # accepted THEN (IF line.ret /\ s.meter[1] = 0 /\ s.meter[2] >= 1 THEN "bar-of-length-zero-takes-a-placement"      \* a meter of count 0 with a beat unit: length 0, not the unbounded (0,0) meter
                                          ELSE "placement-accepted-exactly-when-it-fits")
         ELSE IF ~accepted /\ obs # s THEN "refused-placement-changes-nothing"
         ELSE IF accepted /\ Len(obs.entries) # Len(s.entries) + 1 THEN "accepted-placement-appends-one-entry"
         ELSE IF accepted /\ obs.entries[Len(obs.entries)].t # exp.entries[Len(exp.entries)].t THEN "entry-value"
         ELSE IF accepted /\ obs.entries[Len(obs.entries)].c # exp.entries[Len(exp.entries)].c THEN "entry-content"
         ELSE IF accepted /\ obs.entries[Len(obs.entries)].at # exp.entries[Len(exp.entries)].at THEN "start-beat-is-sum-of-previous"
         ELSE IF obs # exp THEN "other-entries-unchanged"
         ELSE Derived(exp, line.obs)
    [] line.op = "remove_last" ->
         IF ~line.ok THEN "operation-raised"
         ELSE IF ObsState(line.obs) # Expected(s, line) THEN "remove-last-entry" ELSE Derived(Expected(s, line), line.obs)
    [] line.op \in {"set_item", "place_at", "place_at_beat", "place_at_obj"} ->
         IF ~line.ok THEN "operation-raised"
         ELSE IF ObsState(line.obs) # Expected(s, line) THEN "content-edit-changes-only-that-entry" ELSE Derived(Expected(s, line), line.obs)
    [] line.op = "set_meter" ->
         IF MeterAccepted(line.in.count, line.in.unit)
         THEN (IF line.ok /\ ObsState(line.obs) = Expected(s, line) THEN "ok" ELSE "set-meter")
         ELSE (IF ~line.ok /\ line.err # "hang" /\ ObsState(line.obs) = s THEN "ok" ELSE "set-meter-rejects")
    [] OTHER -> "unknown-op"
NextState(s, line) == ObsState(line.obs)
InitState == NewBar(<<4, 4>>)
W == INSTANCE WalkS
Spec == W!Spec
Consumed == W!Consumed
=============================================================================
