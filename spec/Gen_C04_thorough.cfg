INIT Init
NEXT Next
CONSTANTS M = 4
 KN = 3
