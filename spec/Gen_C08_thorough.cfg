INIT Init
NEXT Next
CONSTANTS PrefixKeys = "all"
 MaxPrefix = 3
 ProgLen = 4
