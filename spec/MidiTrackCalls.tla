--------------------------- MODULE MidiTrackCalls ---------------------------
(***************************************************************************)
(* EXTENSION X04: the call-level state machine of mingus.midi.MidiTrack -   *)
(* one action per public method, on the writer state of MidiWriterImpl      *)
(* (pending delta that is NOT consumed by an event, accumulated rest delay, *)
(* change-instrument flag, emitted events).  Behaviours are arbitrary       *)
(* interleavings of the low-level calls (set_deltatime, play/stop of notes  *)
(* and containers, set_instrument, set_tempo, set_meter, set_key,           *)
(* set_track_name, reset) with play_Bar - histories no exporter produces.   *)
(* After every call the bytes of get_midi_data() are decoded with the       *)
(* reader of Smf.tla and must be exactly the events of the machine, and the *)
(* logged scalars (pending delta, delay, flag, instrument) must be the      *)
(* machine's (Trace_X04).                                                    *)
(***************************************************************************)
EXTENDS MidiWriterImpl, SmfWrite

SetInstrumentB(w, ch, nr, bank) == LET w1 == Emit(w, "cc", ch, 0, bank) IN Emit(SetDelta(w1, 0), "pc", ch, nr, 0)
Reset(w) == [w EXCEPT !.out = <<>>, !.delta = 0, !.tick = 0]
\* a: [op, n, notes, ch, instr, bank, bpm, meter, key, txt, entries]
Call(w, a) ==
    CASE a.op = "new" -> Start(a.bpm)
      [] a.op = "set_deltatime" -> SetDelta(w, a.n)
      [] a.op = "play_Note" -> PlayNote(w, a.notes[1])
      [] a.op = "stop_Note" -> StopNote(w, a.notes[1])
      [] a.op = "play_NoteContainer" -> PlayNC(w, a.notes)
      [] a.op = "stop_NoteContainer" -> StopNC(w, a.notes)
      [] a.op = "set_instrument" -> SetInstrumentB(w, a.ch, a.instr, a.bank)
      [] a.op = "set_tempo" -> Emit(w, "tempo", TempoValue(a.bpm), 0, 0)
      [] a.op = "set_meter" -> Emit(w, "meter", a.meter[1], Log2u(a.meter[2]), 0)
      [] a.op = "set_key" -> Emit(w, "key", KeySf(a.key), KeyMinor(a.key), 0)
      [] a.op = "set_track_name" -> EmitTxt(w, "name", a.txt)
      [] a.op = "reset" -> Reset(w)
      [] a.op = "play_Bar" -> PlayBar(w, [key |-> a.key, meter |-> a.meter, entries |-> a.entries])
      [] a.op = "arm_instrument" -> [w EXCEPT !.chg = TRUE, !.instr = a.instr]       \* what play_Track does before its bars
      [] OTHER -> w
\* ---- observation: decode one track chunk (header + events + end of track) into absolute-tick events
RECURSIVE Absolute(_, _, _)
Absolute(evs, t, acc) == IF evs = <<>> THEN acc ELSE Absolute(Tail(evs), t + evs[1].tick, Append(acc, [evs[1] EXCEPT !.tick = t + @]))
DecodeTrackChunk(B) ==
    IF ~IsTag(B, 1, MTrk) \/ U32(B, 5) < 0 \/ 8 + U32(B, 5) # Len(B) THEN [ok |-> FALSE, evs |-> <<>>]
    ELSE LET r == DecodeChunk(B, 9, 0, 0, Len(B), <<>>) IN
         IF r.ok /\ r.next = Len(B) + 1 THEN [ok |-> TRUE, evs |-> Absolute(r.evs, 0, <<>>)] ELSE [ok |-> FALSE, evs |-> <<>>]
\* ---- file level: a MidiFile over two tracks (MC_X04F, Trace_X04F)
C4 == [n |-> <<"C">>, o |-> 4, ch |-> 0, vel |-> 100]
FActs == {[op |-> o, i |-> i] : o \in {"note", "reset"}, i \in 1..2} \cup {[op |-> "reset_file", i |-> 0]}
FApply(s, a) == CASE a.op = "note" -> [s EXCEPT ![a.i] = StopNote(SetDelta(PlayNote(SetDelta(@, 0), C4), 72), C4)]
                  [] a.op = "reset" -> [s EXCEPT ![a.i] = Reset(@)]
                  [] OTHER -> [j \in 1..2 |-> Reset(s[j])]
\* the rendered file: the tracks that hold any data, in order
Rendered(s) == SelectSeq([j \in 1..2 |-> s[j].out], LAMBDA o : o # <<>>)
=============================================================================
