-------------------------------- MODULE WalkS --------------------------------
(* Generic walker over a trace of BEHAVIOURS of a state machine: many traces   *)
(* are batched in one file; each line is explained against the specification  *)
(* state `st` (Clause), the verdict is total, and after every line the spec     *)
(* state is (re-)synchronised with the logged observation (NextState), so one   *)
(* unexplained step does not leave the rest of a behaviour unexamined.          *)
EXTENDS Naturals, Sequences, FiniteSets, TLC, Json, IOUtils, SequencesExt
CONSTANTS Trace, Clause(_, _), NextState(_, _), InitState
VARIABLES l, st, bad, nbad
MaxBad == 1000000
Init == l = 1 /\ st = InitState /\ bad = {} /\ nbad = 0
Step == /\ l <= Len(Trace)
        /\ LET c == Clause(st, Trace[l]) IN
             /\ bad' = IF c = "ok" \/ nbad >= MaxBad THEN bad ELSE bad \cup {<<l, c>>}
             /\ nbad' = IF c = "ok" THEN nbad ELSE nbad + 1
        /\ st' = NextState(st, Trace[l])
        /\ l' = l + 1
Finish == /\ l = Len(Trace) + 1
          /\ ndJsonSerialize(IOEnv.OUT, <<[n |-> Len(Trace), nbad |-> nbad]>> \o SetToSeq(bad))
          /\ l' = l + 1 /\ UNCHANGED <<st, bad, nbad>>
Next == Step \/ Finish
Spec == Init /\ [][Next]_<<l, st, bad, nbad>>
Consumed == TLCGet("stats").diameter = Len(Trace) + 2
=============================================================================
