SPECIFICATION Spec
CONSTANTS Mode = "hist"
 D = 3
