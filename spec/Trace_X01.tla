----------------------------- MODULE Trace_X01 -----------------------------
(* Extension X01: recorded observer message streams against Announce.tla. *)
EXTENDS Announce, TLC, Json, IOUtils
Trace == ndJsonDeserialize(IOEnv.TRACE)
VARIABLES l, bad, nbad
N4(x) == [n |-> x.n, o |-> x.o, ch |-> x.ch, vel |-> x.vel]
Ent(e) == [t |-> e.t, rest |-> e.rest, notes |-> [i \in 1..Len(e.notes) |-> N4(e.notes[i])], bpm |-> e.bpm]
BarEntries(b) == [i \in 1..Len(b.entries) |-> Ent(b.entries[i])]
TrackBars(t) == [i \in 1..Len(t.bars) |-> BarEntries(t.bars[i])]
Ms(xs) == [i \in 1..Len(xs) |-> Msg(xs[i].k, xs[i].p, xs[i].ch, xs[i].v)]
Field(e, f, d) == IF f \in DOMAIN e.in THEN e.in[f] ELSE d
\* the exact word of sequential playback (bar indices are positions in the composition's track)
ExpectedWord(e) ==
    IF e.op = "play_Track" THEN LET r == EmitTrack(TrackBars(e.prog.tracks[1]), 9, e.prog.bpm) IN
                                 [ms |-> [r.ms EXCEPT ![1].p = e.in.track], bpm |-> r.bpm]
    ELSE EmitBar(BarEntries(e.prog.tracks[1].bars[1]), e.in.bar, 9, e.prog.bpm)
NTracks(e) == Len(e.prog.tracks)
NBars(e) == Len(e.prog.tracks[1].bars)
Clause(e) ==
    IF e.op = "build" THEN "ok"
    ELSE IF ~e.ok THEN "playback-raised"
    ELSE LET ms == Ms(e.msgs)
             \* play_Bars on bar i of a longer composition announces that bar's index
             shift == IF e.op \in {"play_Bars", "play_Bar"} THEN Field(e, "bar", 0) ELSE 0
             ms0 == [i \in 1..Len(ms) |-> IF ms[i].k \in {"BAR", "BARS"} THEN [ms[i] EXCEPT !.p = @ - shift] ELSE ms[i]]
             acc == AcceptAll(e.op, NTracks(e), ms0) IN
         IF Low(ms) # Ms(e.events) THEN "low-level-messages-are-the-hook-events"
         ELSE IF acc # "ok" THEN acc
         ELSE IF e.op \in {"play_Tracks", "play_Composition"} /\ CountKind(ms, "BARS") # NBars(e) THEN "one-announcement-per-bar"
         ELSE IF e.op = "play_Composition" /\ (ms[1].p # NTracks(e) \/ ms[1].ch # 0 \/ ms[1].v # e.prog.bpm) THEN "announcement-arguments"
         ELSE IF e.op \in {"play_Tracks", "play_Composition"}
                 /\ LET t == KindSeq(ms, {"TRACKS"})[1] IN t.p # NTracks(e) \/ t.ch # NTracks(e) \/ t.v # e.prog.bpm THEN "announcement-arguments"
         ELSE IF e.op \in {"play_Tracks", "play_Composition", "play_Bars"}
                 /\ LET b == KindSeq(ms, {"BARS"})[1] IN b.ch # NTracks(e) \/ b.v # e.prog.bpm THEN "announcement-arguments"
         ELSE IF e.op \in {"play_Track", "play_Bar"} /\ EraseSleep(ms) # ExpectedWord(e).ms THEN "sequential-stream-is-the-emitted-word"
         ELSE IF e.op \in {"play_Track", "play_Bar"} /\ e.ret # ExpectedWord(e).bpm THEN "returns-final-tempo"
         ELSE "ok"
W == INSTANCE Walk
Spec == W!Spec
Consumed == W!Consumed
=============================================================================
