------------------------------- MODULE MC_X01 -------------------------------
(* The ideal emitter's word is accepted by the acceptor for every small track;  *)
(* and single corruptions of an emitted word (drop / duplicate / swap one       *)
(* message) are rejected whenever they change the word - the acceptor together  *)
(* with the exact-word rule is not vacuous.                                      *)
EXTENDS Announce, TLC
VARIABLES call
Nt(n, ch, vel) == [n |-> n, o |-> 4, ch |-> ch, vel |-> vel]
Entries == { [t |-> 4, rest |-> TRUE, notes |-> <<>>, bpm |-> 0],
             [t |-> 4, rest |-> FALSE, notes |-> <<Nt(<<"C">>, 1, 100)>>, bpm |-> 0],
             [t |-> 4, rest |-> FALSE, notes |-> <<Nt(<<"E">>, 5, 64), Nt(<<"G">>, 2, 70)>>, bpm |-> 90] }
BarsSet == UNION {[1..k -> Entries] : k \in 0..2}
Tracks == UNION {[1..k -> BarsSet] : k \in 0..2}
Init == call = [op |-> "init"]
Next == call.op = "init" /\ \E tr \in Tracks : call' = [op |-> "track", bars |-> tr]
Spec == Init /\ [][Next]_call
Word(c) == EmitTrack(c.bars, 9, 120).ms
DropAt(w, i) == SubSeq(w, 1, i - 1) \o SubSeq(w, i + 1, Len(w))
DupAt(w, i) == SubSeq(w, 1, i) \o SubSeq(w, i, Len(w))
SwapAt(w, i) == [j \in 1..Len(w) |-> IF j = i THEN w[i + 1] ELSE IF j = i + 1 THEN w[i] ELSE w[j]]
EmitterAccepted == call.op = "track" => AcceptAll("play_Track", 1, Word(call)) = "ok"
\* the acceptor alone rejects every single drop or duplication of a non-announcement message, and every swap of unequal neighbours
\* except reordering inside what the grammar leaves open (there is none for sequential playback)
CorruptionsRejected == call.op = "track" =>
    LET w == Word(call) IN
    /\ \A i \in 1..Len(w) : w[i].k \notin AnnKinds => AcceptAll("play_Track", 1, DropAt(w, i)) # "ok"
    \* the acceptor does not know the number of bars: only the LAST bar announcement can be dropped unnoticed (the exact-word rule sees it)
    /\ \A i \in 1..Len(w) : w[i].k = "BAR" /\ (\E j \in (i + 1)..Len(w) : w[j].k = "BAR") => AcceptAll("play_Track", 1, DropAt(w, i)) # "ok"
    /\ \A i \in 1..Len(w) : AcceptAll("play_Track", 1, DupAt(w, i)) # "ok"
    /\ \A i \in 1..(Len(w) - 1) : w[i] # w[i + 1] => AcceptAll("play_Track", 1, SwapAt(w, i)) # "ok"
=============================================================================
