------------------------------- MODULE MC_X02 -------------------------------
(* Round trip inside the specification: Smf's reader decodes SmfWrite's bytes. *)
EXTENDS SmfWrite, TLC
VARIABLES call
ChE(d, k, ch, a, b) == AEv(d, k, ch, a, b, <<>>)
MetaE(d, ty, data) == AEv(d, "meta", 0, ty, 0, data)
Alphabet == { ChE(0, "on", 0, 60, 100), ChE(96, "off", 0, 60, 64), ChE(0, "on", 0, 64, 0), ChE(200, "on", 3, 72, 1),
              ChE(16384, "off", 3, 72, 0), ChE(1, "cc", 0, 7, 0), ChE(0, "cc", 0, 7, 127), ChE(0, "pc", 0, 41, 0), ChE(5, "cp", 2, 90, 0),
              ChE(0, "pb", 0, 0, 64), ChE(127, "at", 0, 60, 0), MetaE(128, 3, <<65, 66>>), MetaE(0, 81, <<7, 161, 32>>),
              MetaE(0, 88, <<6, 3, 24, 8>>), MetaE(0, 89, <<253, 1>>), MetaE(0, 1, <<>>), MetaE(0, 127, <<1, 2, 3>>) }
TracksOf(n) == UNION {[1..k -> Alphabet] : k \in 0..n}
Init == call = [op |-> "init"]
Next == call.op = "init" /\ \E fmt \in {0, 1}, dv \in {96, 480}, ru \in BOOLEAN, t1 \in TracksOf(2), t2 \in TracksOf(1) :
           call' = [op |-> "file", f |-> [format |-> fmt, division |-> dv, tracks |-> IF fmt = 0 THEN <<t1>> ELSE <<t1, t2>>], ru |-> ru]
Spec == Init /\ [][Next]_call
ReaderDecodesWriter == call.op = "file" => RoundTrip(call.f, call.ru)
\* running status really shortens some files (the generator is not vacuous)
RunningMatters == call.op = "file" /\ call.ru => Len(EncFile(call.f, TRUE)) <= Len(EncFile(call.f, FALSE))
=============================================================================
