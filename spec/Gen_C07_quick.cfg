INIT Init
NEXT Next
CONSTANTS RootSet = "N21"
 WithTriples = TRUE
