SPECIFICATION Spec
POSTCONDITION Consumed
