----------------------------- MODULE Trace_C11L -----------------------------
(* Lifting of transposition / augment / diminish through container, bar and    *)
(* track (property C11): exactly that operation on every sounding note in       *)
(* scope; rests, values, beat positions and everything out of scope untouched. *)
EXTENDS Track, TLC, Json, IOUtils
Trace == ndJsonDeserialize(IOEnv.TRACE)
VARIABLES l, st, bad, nbad
Notes(xs) == [i \in 1..Len(xs) |-> [n |-> xs[i].n, o |-> xs[i].o]]
Content(c) == IF c.rest THEN Rest ELSE Sounding(Notes(c.notes))
ObsBar(o) == [key |-> o.key, meter |-> <<o.meter[1], o.meter[2]>>, len |-> o.len, cur |-> o.cur,
              entries |-> [i \in 1..Len(o.entries) |-> [at |-> o.entries[i].at, t |-> o.entries[i].vt, c |-> Content(o.entries[i].c)]]]
ObsTrack(t) == [instr |-> t.instr, bars |-> [i \in 1..Len(t.bars) |-> ObsBar(t.bars[i])]]
\* one note after the step
\* relaxed = TRUE: for names carrying three or more accidentals only letter and pitch class are demanded
Heavy(a, r) == NAcc(a.n) >= 3 \/ NAcc(r.n) >= 3
LawTransposeClass(a, sh, up, r) ==
    /\ Valid(r.n) /\ Letter(r.n) = ShiftLetter(Letter(a.n), IF up THEN ShDegree(sh) - 1 ELSE 1 - ShDegree(sh))
    /\ PC(r.n) = Mod12(PC(a.n) + (IF up THEN ShSize(sh) ELSE 0 - ShSize(sh)))
NoteOkX(a, r, step, relaxed) ==
  CASE step.op = "transpose" -> IF relaxed /\ Heavy(a, r) THEN LawTransposeClass(a, step.sh, step.up, r) ELSE LawTranspose(a, step.sh, step.up, r)
    [] step.op = "augment" -> r = [n |-> Augment(a.n), o |-> a.o]
    [] step.op = "diminish" -> r = [n |-> Diminish(a.n), o |-> a.o]
NoteOk(a, r, step) ==
  CASE step.op = "transpose" -> LawTranspose(a, step.sh, step.up, r)
    [] step.op = "augment" -> r = [n |-> Augment(a.n), o |-> a.o]
    [] step.op = "diminish" -> r = [n |-> Diminish(a.n), o |-> a.o]
SameNotes(c, d) == c = d
ContentOk(c, d, step, inScope, relaxed) ==
    IF c.rest \/ ~inScope THEN d = c
    ELSE ~d.rest /\ Len(d.notes) = Len(c.notes) /\ \A i \in 1..Len(c.notes) : NoteOkX(c.notes[i], d.notes[i], step, relaxed)
\* scope: whole track / bar number bi / entry (bi, ei)
InScope(step, bi, ei, sc) == CASE step.level = "track" -> TRUE [] step.level = "bar" -> bi = sc.bar [] OTHER -> bi = sc.bar /\ ei = sc.entry
Lifted(t, u, step, sc, relaxed) ==
    /\ u.instr = t.instr /\ Len(u.bars) = Len(t.bars)
    /\ \A bi \in 1..Len(t.bars) :
         LET b == t.bars[bi] c == u.bars[bi] IN
         /\ c.meter = b.meter /\ c.len = b.len      \* (the bar's KEY is not mentioned by the property: a transposition may or may not carry it along) /\ c.cur = b.cur /\ Len(c.entries) = Len(b.entries)
         /\ \A ei \in 1..Len(b.entries) :
              /\ c.entries[ei].at = b.entries[ei].at /\ c.entries[ei].t = b.entries[ei].t
              /\ ContentOk(b.entries[ei].c, c.entries[ei].c, step, InScope(step, bi, ei, sc), relaxed)
Clause(s, line) ==
  CASE line.op = "build" -> IF line.ok THEN "ok" ELSE "build-failed"
    [] line.op = "lift" ->
         IF ~line.ok THEN "lifting-raised"
         ELSE IF Lifted(s, ObsTrack(line.obs), line.in, line.in.scope, FALSE) THEN "ok"
         ELSE IF Lifted(s, ObsTrack(line.obs), line.in, line.in.scope, TRUE) THEN "octave-rule-on-names-with-3-or-more-accidentals"
         ELSE IF \E bi \in 1..Len(s.bars) : \E ei \in 1..Len(s.bars[bi].entries) : s.bars[bi].entries[ei].c.rest /\
                    (Len(line.obs.bars) # Len(s.bars) \/ Len(ObsTrack(line.obs).bars[bi].entries) # Len(s.bars[bi].entries) \/ ObsTrack(line.obs).bars[bi].entries[ei] # s.bars[bi].entries[ei])
              THEN "rests-durations-beats-untouched"
         ELSE "applies-to-every-note-in-scope"
    [] line.op = "augdim" ->     \* augment then diminish on the whole track: identity
         IF line.ok /\ ObsTrack(line.obs) = s THEN "ok" ELSE "augment-then-diminish-identity"
    [] OTHER -> "unknown-op"
NextState(s, line) == IF line.ok \/ line.op = "build" THEN ObsTrack(line.obs) ELSE s
InitState == [instr |-> "none", bars |-> <<>>]
W == INSTANCE WalkS
Spec == W!Spec
Consumed == W!Consumed
=============================================================================
