SPECIFICATION Spec
INVARIANT RotationsCompose
INVARIANT FullTurn
INVARIANT SameNotes
INVARIANT StartsOn
