----------------------------- MODULE Trace_X06 -----------------------------
(* Extension X06: bookkeeping calls on a real Composition and a real Suite against Shelf.tla. *)
EXTENDS Shelf, TLC, Json, IOUtils
Trace == ndJsonDeserialize(IOEnv.TRACE)
VARIABLES l, st, bad, nbad
Start == <<New("composition"), New("suite")>>
Act(line) == [op |-> line.op, h |-> line.in.h, x |-> line.in.x, i |-> line.in.i, s1 |-> line.in.s1, s2 |-> line.in.s2]
Obs(line) == [j \in 1..2 |-> [kind |-> Start[j].kind, title |-> line.obs[j].title, subtitle |-> line.obs[j].subtitle, author |-> line.obs[j].author,
                               email |-> line.obs[j].email, items |-> line.obs[j].items]]
Clause(s0, line) ==
    LET s == IF line.first THEN Start ELSE s0
        a == Act(line)
        refused == Refused(s, a)
        exp == IF refused THEN s ELSE Apply(s, a) IN
    IF refused /\ line.ok THEN "foreign-object-or-bad-index-accepted"
    ELSE IF ~refused /\ ~line.ok THEN "call-raised"
    ELSE IF Obs(line)[3 - a.h] # s[3 - a.h] THEN "other-holder-changed"
    ELSE IF Obs(line) # exp THEN (IF refused THEN "refused-call-changed-something" ELSE "bookkeeping")
    ELSE IF \E j \in 1..2 : line.obs[j].len # Len(exp[j].items) \/ ~line.obs[j].index_ok THEN "length-and-indexing"
    ELSE "ok"
NextState(s0, line) == Obs(line)
InitState == Start
W == INSTANCE WalkS
Spec == W!Spec
Consumed == W!Consumed
=============================================================================
