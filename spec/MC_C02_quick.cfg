SPECIFICATION Spec
CONSTANTS K = 4
 KP = 2
INVARIANT RefSatisfiesLaws
INVARIANT Theorems
