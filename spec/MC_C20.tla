------------------------------ MODULE MC_C20 ------------------------------
EXTENDS Tab, TLC
VARIABLE call
Guitar == <<28, 33, 38, 43, 47, 52>>      \* E-2 A-2 D-3 G-3 B-3 E-4 as pitch numbers (C-0 = 0)
Init == call = [op |-> "init"]
Next == call.op = "init" /\
  \/ \E s \in 1..6, p \in 20..80 : call' = [op |-> "fret", s |-> s, p |-> p]
  \/ \E a \in 28..50, b \in 28..50, md \in {3, 4, 6} : call' = [op |-> "fing", notes |-> <<a, b, a + 7>>, md |-> md]
Spec == Init /\ [][Next]_call
Theorems ==
  CASE call.op = "fret" -> LET f == Fret(Guitar[call.s], call.p, 24) IN f # None => Guitar[call.s] + f = call.p     \* NoteAt(s, Fret(s, n)) = n
    [] call.op = "fing" -> \A f \in Fingerings(Guitar, call.notes, call.md) :
                              /\ Injective([i \in 1..Len(f) |-> f[i][1]])
                              /\ \A i \in 1..Len(f) : Guitar[f[i][1] + 1] + f[i][2] = call.notes[i]
                              /\ SpanOk([i \in 1..Len(f) |-> f[i][2]], call.md)
                              /\ Fingerings(Guitar, call.notes, call.md) \subseteq Fingerings(Guitar, call.notes, 6)   \* closed under the span rule
    [] OTHER -> TRUE
=============================================================================
