-------------------------------- MODULE Value --------------------------------
(* Note values as exact integer durations, and meters (property C09; used by  *)
(* C13, C14, C16-C19).  One whole note = L ticks, L = 2^11 * 3 * 5 * 7, so     *)
(* every value of the documented vocabulary has an integral length.           *)
EXTENDS Naturals, Integers, Sequences, FiniteSets

L == 215040
Pow2(n) == IF n = 0 THEN 1 ELSE LET P[i \in 0..n] == IF i = 0 THEN 1 ELSE 2 * P[i - 1] IN P[n]
\* base values are indexed 0..9: longa (1/4), breve (1/2), whole (1), half (2), ..., 128th
BaseIdx == 0..9
BaseTicks(i) == (4 * L) \div Pow2(i)
Ratios == {<<1, 1>>, <<3, 2>>, <<5, 4>>, <<7, 4>>}
\* a vocabulary value: base index, dots 0..4 (only with ratio 1:1), tuplet ratio
Vocabulary == {[b |-> i, d |-> d, r |-> <<1, 1>>] : i \in BaseIdx, d \in 0..4} \cup
              {[b |-> i, d |-> 0, r |-> r] : i \in BaseIdx, r \in Ratios \ {<<1, 1>>}}
\* exact length in ticks: dots add half of what was added before; a:b tuplet = a notes in the time of b
Ticks(v) == (BaseTicks(v.b) * (Pow2(v.d + 1) - 1) * v.r[2]) \div (Pow2(v.d) * v.r[1])
TicksExact(v) == (BaseTicks(v.b) * (Pow2(v.d + 1) - 1) * v.r[2]) % (Pow2(v.d) * v.r[1]) = 0

\* tolerance of float observations: 10^-9 whole note, expressed in 10^-9 tick
Tol9 == L
Close(obsTicks, obsRes9, exact) == obsTicks = exact /\ obsRes9 <= Tol9 /\ obsRes9 >= 0 - Tol9

\* ---- Laws C09 (values) ----
LawAnalyse(v, out) == out = [b |-> v.b, d |-> v.d, r |-> v.r]
\* near miss: only undotted or single-dotted recognised values
NearMissDomain(v) == v.d <= 1

\* ---- meters ----
IsPow2(n) == n >= 1 /\ \E k \in 0..30 : Pow2(k) = n
\* a numeric beat unit is logged as a reduced fraction <<num, den>>
ValidUnit(u) == u[2] = 1 /\ IsPow2(u[1])
ValidMeter(count, u) == count > 0 /\ ValidUnit(u)
Compound(count, u) == ValidMeter(count, u) /\ count % 3 = 0 /\ count >= 6
Asymmetrical(count, u) == ValidMeter(count, u) /\ count % 2 = 1
=============================================================================
