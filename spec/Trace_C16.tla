----------------------------- MODULE Trace_C16 -----------------------------
(* C16: every file written by the real code is read by the Smf automaton       *)
(* (one TLC step per header / chunk header / event) and the decoded events      *)
(* are compared with the events the program denotes (MidiSem).                  *)
EXTENDS MidiWriterImpl, Smf, TLC, Json, IOUtils
Trace == ndJsonDeserialize(IOEnv.TRACE)
VARIABLES l,          \* current record
          ph,         \* "start" | "chunk" | "event" | "verdict"
          pos, chunkEnd, declared, tick, running,
          evs,        \* events decoded in the current chunk
          tracks,     \* decoded chunks of the current file
          err,        \* first well-formedness clause broken ("" if none)
          bad, nbad
vars == <<l, ph, pos, chunkEnd, declared, tick, running, evs, tracks, err, bad, nbad>>
Rec == Trace[l]
B == Rec.bytes

Init == /\ l = 1 /\ ph = "start" /\ pos = 1 /\ chunkEnd = 0 /\ declared = 0 /\ tick = 0 /\ running = 0
        /\ evs = <<>> /\ tracks = <<>> /\ err = "" /\ bad = {} /\ nbad = 0

Fail(msg) == /\ err' = msg /\ ph' = "verdict"
             /\ UNCHANGED <<l, pos, chunkEnd, declared, tick, running, evs, tracks, bad, nbad>>

ReadHeader ==
    /\ l <= Len(Trace) /\ ph = "start" /\ Rec.op = "file"
    /\ LET h == Header(B) IN
       IF ~h.ok THEN Fail("smf-header")
       ELSE IF h.format # 1 THEN Fail("smf-format-1")
       ELSE IF h.division # TPQ THEN Fail("smf-division-72")
       ELSE /\ declared' = h.ntrks /\ pos' = 15 /\ ph' = "chunk"
            /\ UNCHANGED <<l, chunkEnd, tick, running, evs, tracks, err, bad, nbad>>
ReadChunkHeader ==
    /\ ph = "chunk"
    /\ IF pos > Len(B) THEN /\ ph' = "verdict" /\ UNCHANGED <<l, pos, chunkEnd, declared, tick, running, evs, tracks, err, bad, nbad>>
       ELSE IF ~IsTag(B, pos, MTrk) \/ U32(B, pos + 4) < 0 \/ pos + 7 + U32(B, pos + 4) > Len(B) THEN Fail("smf-chunk-header")
       ELSE /\ chunkEnd' = pos + 7 + U32(B, pos + 4) /\ pos' = pos + 8 /\ tick' = 0 /\ running' = 0 /\ evs' = <<>> /\ ph' = "event"
            /\ UNCHANGED <<l, declared, tracks, err, bad, nbad>>
ReadEvent ==
    /\ ph = "event"
    /\ LET e == EventAt(B, pos, running, tick, chunkEnd) IN
       IF ~e.ok THEN Fail(e.err)
       ELSE IF e.eot THEN /\ tracks' = Append(tracks, evs) /\ pos' = e.next /\ ph' = "chunk"
                          /\ UNCHANGED <<l, chunkEnd, declared, tick, running, evs, err, bad, nbad>>
       ELSE IF e.next > chunkEnd THEN Fail("smf-chunk-without-end-of-track")
       ELSE /\ evs' = Append(evs, e.ev) /\ pos' = e.next /\ tick' = e.ev.tick
            /\ running' = (IF e.status # 0 THEN e.status ELSE running)
            /\ UNCHANGED <<l, ph, chunkEnd, declared, tracks, err, bad, nbad>>

\* ---- what the program denotes, per writer
P == Rec.prog
Note4(x) == [n |-> x.n, o |-> x.o, ch |-> x.ch, vel |-> x.vel]
EntryOf(e) == [t |-> e.t, rest |-> e.rest, notes |-> [i \in 1..Len(e.notes) |-> Note4(e.notes[i])]]
BarOf(b) == [key |-> b.key, meter |-> <<b.meter[1], b.meter[2]>>, entries |-> [i \in 1..Len(b.entries) |-> EntryOf(b.entries[i])]]
TrackOf(t) == [bars |-> [i \in 1..Len(t.bars) |-> BarOf(t.bars[i])]]
IsLone == P.writer \in {"note", "container"}
ExpectedOf(i) == IF IsLone THEN LoneEvents(EntryOf(P.tracks[1].bars[1].entries[1]).notes, P.repeat)
                 ELSE ExpectedTrack(TrackOf(P.tracks[i]), P.repeat)
FirstOn(s) == IF \E i \in 1..Len(s) : s[i].k = "on" THEN CHOOSE i \in 1..Len(s) : s[i].k = "on" /\ \A j \in 1..(i - 1) : s[j].k # "on" ELSE 0
IsMeter(e) == e.k = "meter"
IsKeyEv(e) == e.k = "key"
TrackClause(i) ==
    LET dec == tracks[i] exp == ExpectedOf(i) tr == P.tracks[i] f == FirstOn(dec) IN
    IF ~SameBag(Filter(dec, IsNote), Filter(exp, IsNote)) THEN "notes-at-entry-ticks"
    ELSE IF ~Paired(dec, {}) THEN "note-hangs-or-overlaps-itself"
    ELSE IF ~(\E j \in 1..Len(dec) : dec[j].k = "tempo" /\ dec[j].tick = 0 /\ dec[j].a = TempoValue(P.bpm)) THEN "tempo"
    ELSE IF P.writer \in {"track", "composition"} /\ ~(\E j \in 1..Len(dec) : dec[j].k = "name" /\ dec[j].tick = 0 /\ dec[j].txt = tr.name) THEN "track-name"
    ELSE IF ~IsLone /\ ~SameBag(Filter(dec, IsMeter), Filter(exp, IsMeter)) THEN "time-signature"
    ELSE IF ~IsLone /\ ~SameBag(Filter(dec, IsKeyEv), Filter(exp, IsKeyEv)) THEN "key-signature"
    ELSE IF ~IsLone /\ tr.instr.kind = "midi" /\ f > 0
            /\ ~(/\ \E j \in 1..(f - 1) : dec[j].k = "cc" /\ dec[j].a = dec[f].a /\ dec[j].b = 0
                 /\ \E j \in 1..(f - 1) : dec[j].k = "pc" /\ dec[j].a = dec[f].a /\ dec[j].b = tr.instr.nr)
         THEN "instrument-change"
    ELSE "ok"
FileClause ==
    IF err # "" THEN err
    ELSE IF declared # Len(tracks) THEN "smf-declared-track-count"
    ELSE IF Len(tracks) # (IF IsLone THEN 1 ELSE Len(P.tracks)) THEN "track-count"
    ELSE IF \E i \in 1..Len(tracks) : TrackClause(i) # "ok"
         THEN TrackClause(CHOOSE i \in 1..Len(tracks) : TrackClause(i) # "ok" /\ \A j \in 1..(i - 1) : TrackClause(j) = "ok")
    ELSE "ok"
\* model conformance (information only): the decoded event sequence is exactly what the implementation-shaped writer emits
TrackFull(t) == [name |-> t.name, instr |-> [kind |-> t.instr.kind, nr |-> t.instr.nr],
                 bars |-> [i \in 1..Len(t.bars) |-> [key |-> t.bars[i].key, meter |-> <<t.bars[i].meter[1], t.bars[i].meter[2]>>,
                             entries |-> [j \in 1..Len(t.bars[i].entries) |-> [t |-> t.bars[i].entries[j].t, rest |-> t.bars[i].entries[j].rest, bpm |-> t.bars[i].entries[j].bpm,
                                            notes |-> [k \in 1..Len(t.bars[i].entries[j].notes) |-> Note4(t.bars[i].entries[j].notes[k])]]]]]]
ModelOf(i) == IF P.writer = "bar" THEN WriteBar(TrackFull(P.tracks[1]).bars[1], P.bpm, P.repeat) ELSE WriteTrack(TrackFull(P.tracks[i]), P.bpm, P.repeat)
DriftClause == IF err = "" /\ P.writer \in {"track", "composition", "bar"} /\ Len(tracks) = Len(P.tracks)
                  /\ \E i \in 1..Len(tracks) : tracks[i] # ModelOf(i)
               THEN "DRIFT:model-of-MidiTrack-differs-from-code" ELSE "ok"
VlqClause == IF Rec.out = Vlq(Rec.in.n) /\ VlqDecode(Rec.out) = Rec.in.n /\ VlqWellFormed(Rec.out) THEN "ok" ELSE "variable-length-quantity"
Note(c) == /\ bad' = IF c = "ok" THEN bad ELSE bad \cup {<<l, c>>}
           /\ nbad' = IF c = "ok" THEN nbad ELSE nbad + 1
Verdict == /\ ph = "verdict" /\ Note(IF FileClause = "ok" THEN DriftClause ELSE FileClause)
           /\ l' = l + 1 /\ ph' = "start" /\ pos' = 1 /\ chunkEnd' = 0 /\ declared' = 0 /\ tick' = 0 /\ running' = 0
           /\ evs' = <<>> /\ tracks' = <<>> /\ err' = ""
VlqStep == /\ l <= Len(Trace) /\ ph = "start" /\ Rec.op = "vlq" /\ Note(VlqClause)
           /\ l' = l + 1 /\ UNCHANGED <<ph, pos, chunkEnd, declared, tick, running, evs, tracks, err>>
\* a program the library refused to construct is not an exporter case (the builder is checked by C13/C14)
Skip == /\ l <= Len(Trace) /\ ph = "start" /\ Rec.op \notin {"file", "vlq"} /\ Note(IF Rec.op = "build" THEN "ok" ELSE "unknown-op")
        /\ l' = l + 1 /\ UNCHANGED <<ph, pos, chunkEnd, declared, tick, running, evs, tracks, err>>
Finish == /\ l = Len(Trace) + 1 /\ ph = "start"
          /\ ndJsonSerialize(IOEnv.OUT, <<[n |-> Len(Trace), nbad |-> nbad]>> \o SetToSeq(bad))
          /\ l' = l + 1 /\ UNCHANGED <<ph, pos, chunkEnd, declared, tick, running, evs, tracks, err, bad, nbad>>
Next == ReadHeader \/ ReadChunkHeader \/ ReadEvent \/ Verdict \/ VlqStep \/ Skip \/ Finish
Spec == Init /\ [][Next]_vars
Consumed == TLCGet("stats").diameter >= Len(Trace) + 2
=============================================================================
