------------------------------ MODULE Gen_C09 ------------------------------
EXTENDS Value, TLC, Json, IOUtils, SequencesExt
CONSTANTS UMAX
Perturb == {-10, -7, -5, -2, -1, 1, 2, 5, 7, 10}      \* per mille: value * (1000 + p) / 1000
IntUnits == (-8..UMAX) \cup {512, 1024, 2048, 4096, 1000, 4095} \cup {Pow2(k) : k \in 13..30} \cup {Pow2(k) + 1 : k \in 13..29} \cup {3 * Pow2(k) : k \in 13..28}
FloatUnits == {<<Pow2(29), 1>>, <<Pow2(30), 1>>, <<Pow2(20), 1>>, <<1, 2>>, <<1, 4>>, <<3, 2>>, <<2, 1>>, <<3, 1>>, <<4, 1>>, <<13, 2>>, <<8, 1>>, <<0, 1>>, <<5, 2>>, <<-1, 2>>, <<16, 1>>, <<1, 1>>, <<32, 1>>, <<64, 1>>, <<128, 1>>, <<1024, 1>>, <<6, 1>>, <<12, 1>>, <<1, 8>>, <<-2, 1>>,
               <<1, 0>>, <<-1, 0>>, <<0, 0>>}     \* denominator 0: +infinity, -infinity, not-a-number (numeric inputs too)
Counts == -3..24
Cases == {[kind |-> "value", v |-> v] : v \in Vocabulary} \cup
         {[kind |-> "near", v |-> v, p |-> p] : v \in {w \in Vocabulary : w.d <= 1}, p \in Perturb} \cup
         {[kind |-> "pair", a |-> a, b |-> b] : a \in Vocabulary, b \in Vocabulary} \cup
         {[kind |-> "unit", u |-> <<n, 1>>, f |-> FALSE] : n \in IntUnits} \cup
         {[kind |-> "unit", u |-> u, f |-> TRUE] : u \in FloatUnits} \cup
         {[kind |-> "meter", c |-> c, u |-> <<n, 1>>, f |-> FALSE] : c \in Counts, n \in {-4, 0, 1, 2, 3, 4, 6, 8, 12, 16, 32, 64, 100, 128, 536870912, 1073741824}} \cup
         {[kind |-> "meter", c |-> c, u |-> u, f |-> TRUE] : c \in {-1, 0, 3, 4, 6, 9}, u \in FloatUnits}
VARIABLE done
Init == done = ndJsonSerialize(IOEnv.OUT, SetToSeq(Cases))
Next == FALSE /\ done' = done
=============================================================================
