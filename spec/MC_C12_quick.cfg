SPECIFICATION Spec
CONSTANTS MaxLen = 2
 Emit = FALSE
INVARIANT InvSorted
INVARIANT InvSetModel
PROPERTY PropSetModel
