SPECIFICATION Spec
INVARIANT Theorems
