SPECIFICATION SSpec
CONSTANTS D = 12
 Mode = "none"
