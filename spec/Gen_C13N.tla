------------------------------ MODULE Gen_C13N ------------------------------
(* C13, systematic NEAR-OVERFLOW fills: two values a, b of the vocabulary, then plain values that fill the   *)
(* bar up to less than a 128th note, then a value c that is too long by at most one thousandth of a whole    *)
(* note (it must be refused: the total is computed exactly) - and, as control, a value that just fits.       *)
(* Found by enumeration over the vocabulary (the arithmetic of mixed tuplet families), not by simulation.    *)
EXTENDS MC_C13, IOUtils
VARIABLE done
U == L \div 128                                  \* ticks of a 128th note, the shortest plain value
Plain(b) == [b |-> b, d |-> 0, r |-> <<1, 1>>]
\* plain values filling n units of a 128th (n < 256), longest first
Pad(n) == LET bits == [j \in 0..7 |-> (n \div Pow2(7 - j)) % 2] IN
          LET F(acc, j) == IF bits[j] = 1 THEN Append(acc, Plain(2 + j)) ELSE acc IN
          FoldLeft(F, <<>>, [j \in 1..8 |-> j - 1])
PlaceAct(v) == [op |-> "place_notes", v |-> v, arg |-> C1]
NearMeters == {<<4,4>>, <<3,4>>, <<6,8>>, <<2,4>>, <<1,8>>}
Odd == {v \in Vocabulary : Ticks(v) % U # 0 /\ TicksExact(v)}          \* values that are no whole number of 128ths
NearCases ==
  UNION {UNION {
    LET len == MeterLength(m[1], m[2]) r0 == len - Ticks(a) - Ticks(b) r == r0 % U IN
    IF r0 < 0 THEN {}
    ELSE {[meter |-> m, acts |-> <<PlaceAct(a), PlaceAct(b)>> \o [i \in 1..Len(Pad(r0 \div U)) |-> PlaceAct(Pad(r0 \div U)[i])] \o <<PlaceAct(c)>>, over |-> Ticks(c) - r] :
             c \in {x \in Vocabulary : TicksExact(x) /\ Ticks(x) - r >= -(L \div 1000) /\ Ticks(x) - r <= L \div 1000 /\ Ticks(x) # r}}
    : a \in Odd, b \in Odd} : m \in NearMeters}
NInit == done = ndJsonSerialize(IOEnv.OUT, SetToSeq(NearCases)) /\ bar = NewBar(<<4,4>>) /\ hist = <<>> /\ ret = TRUE /\ m0 = <<4,4>>
NNext == FALSE /\ done' = done /\ UNCHANGED <<bar, hist, ret, m0>>
=============================================================================
