SPECIFICATION FSpec
CONSTANTS D = 3
 Mode = "none"
