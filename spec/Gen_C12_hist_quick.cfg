SPECIFICATION GSpec
CONSTANTS MaxLen = 4
 Emit = FALSE
 Mode = "hist"
 D = 2
