INIT Init
NEXT Next
CONSTANTS
 Notes <- T_Notes
 Steps <- T_Steps
