#!/bin/sh
# setup_cmd: offline sanity of the toolchain and a SANY parse of every spec module.
set -e
cd "$(dirname "$0")"
command -v java >/dev/null
test -f /opt/veriftools/tla/tla2tools.jar
test -x /venv/bin/python
mkdir -p .work evidence replays
exec /venv/bin/python -m harness.selftest --parse-only
